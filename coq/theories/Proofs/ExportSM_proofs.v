(* C06 / C11 / C17: the export state machine (Model/ExportSM.v).  File system and registry lemmas, the
   single-call frame (what one export_and_merge / export_to / export_into can change), a generic
   induction principle for the recursive walk (any reflexive-transitive relation that one export_into
   satisfies is satisfied by the whole walk), and the refinement of one path of the state to the
   single-file model of C05 (Model/MergeSpec.v). *)
From TsRs Require Import Base.Str Base.Outcome Gen.Tables Model.Path Model.Merge Model.MergeSpec Model.Imports Model.ExportSM Spec.PathOracle.
From Coq Require Import List Bool Lia.
Import ListNotations.

(* ---- paths as keys ------------------------------------------------------------------------------ *)
Lemma list_str_eqb_spec a : forall b, list_str_eqb a b = true <-> a = b.
Proof.
  induction a as [|x a IH]; intros [|y b]; cbn [list_str_eqb]; try (split; [discriminate | discriminate]); [split; reflexivity|].
  rewrite andb_true_iff, str_eqb_eq, IH. split; [intros [-> ->]; reflexivity | intros H; inversion H; split; reflexivity].
Qed.
Lemma list_str_eqb_refl a : list_str_eqb a a = true.
Proof. apply list_str_eqb_spec. reflexivity. Qed.
Lemma list_str_eqb_neq a b : a <> b -> list_str_eqb a b = false.
Proof. intros H. destruct (list_str_eqb a b) eqn:E; [|reflexivity]. apply list_str_eqb_spec in E. contradiction. Qed.

(* ---- the file system ------------------------------------------------------------------------------ *)
Lemma fs_get_remove_same fs p : fs_get (fs_remove fs p) p = None.
Proof.
  induction fs as [|[q n] r IH]; [reflexivity|]. cbn [fs_remove]. destruct (list_str_eqb p q) eqn:E; [exact IH|].
  cbn [fs_get]. rewrite E. exact IH.
Qed.
Lemma fs_get_remove_other fs p q : p <> q -> fs_get (fs_remove fs p) q = fs_get fs q.
Proof.
  intros Hne. induction fs as [|[k n] r IH]; [reflexivity|]. cbn [fs_remove fs_get]. destruct (list_str_eqb p k) eqn:E.
  - apply list_str_eqb_spec in E. subst k. rewrite (list_str_eqb_neq q p) by congruence. exact IH.
  - cbn [fs_get]. rewrite IH. reflexivity.
Qed.
Lemma fs_get_set_same fs p n : fs_get (fs_set fs p n) p = Some n.
Proof. unfold fs_set. cbn [fs_get]. rewrite list_str_eqb_refl. reflexivity. Qed.
Lemma fs_get_set_other fs p q n : p <> q -> fs_get (fs_set fs p n) q = fs_get fs q.
Proof.
  intros Hne. unfold fs_set. cbn [fs_get]. rewrite (list_str_eqb_neq q p) by congruence. apply fs_get_remove_other. exact Hne.
Qed.

(* ---- the registry ---------------------------------------------------------------------------------- *)
Lemma reg_get_add_same reg p name :
  reg_get (reg_add reg p name) p = Some (name :: match reg_get reg p with Some ns => ns | None => [] end).
Proof.
  induction reg as [|[q ns] r IH]; cbn [reg_add reg_get]; [rewrite list_str_eqb_refl; reflexivity|].
  destruct (list_str_eqb p q) eqn:E; cbn [reg_get]; rewrite E; [reflexivity | exact IH].
Qed.
Lemma reg_get_add_other reg p q name : p <> q -> reg_get (reg_add reg p name) q = reg_get reg q.
Proof.
  intros Hne. induction reg as [|[k ns] r IH]; cbn [reg_add reg_get]; [rewrite (list_str_eqb_neq q p) by congruence; reflexivity|].
  destruct (list_str_eqb p k) eqn:E; cbn [reg_get].
  - apply list_str_eqb_spec in E. subst k. rewrite (list_str_eqb_neq q p) by congruence. reflexivity.
  - rewrite IH. reflexivity.
Qed.

(* registry entries are never lost: every name recorded for a path stays recorded *)
Definition reg_le (r r' : list (apath * list str)) : Prop :=
  forall p ns, reg_get r p = Some ns -> exists ns', reg_get r' p = Some ns' /\ incl ns ns'.
Lemma reg_le_refl r : reg_le r r.
Proof. intros p ns H. exists ns. split; [exact H | apply incl_refl]. Qed.
Lemma reg_le_trans a b c : reg_le a b -> reg_le b c -> reg_le a c.
Proof. intros H1 H2 p ns H. destruct (H1 p ns H) as (n1 & G1 & I1). destruct (H2 p n1 G1) as (n2 & G2 & I2). exists n2. split; [exact G2 | eapply incl_tran; eassumption]. Qed.
Lemma reg_le_add r p name : reg_le r (reg_add r p name).
Proof.
  intros q ns H. destruct (list_str_eqb p q) eqn:E.
  - apply list_str_eqb_spec in E. subst q. rewrite reg_get_add_same, H. eexists. split; [reflexivity | apply incl_tl, incl_refl].
  - assert (p <> q) by (intros Hq; subst q; rewrite list_str_eqb_refl in E; discriminate). rewrite reg_get_add_other by assumption. exists ns. split; [exact H | apply incl_refl].
Qed.

(* ---- what one call may change ---------------------------------------------------------------------- *)
(* regular files agree everywhere except (possibly) at the paths satisfying T; directories may have been added *)
Definition files_agree_off (T : apath -> Prop) (fs fs' : fsys) : Prop :=
  forall q, ~ T q -> forall c, fs_get fs' q = Some (File c) <-> fs_get fs q = Some (File c).
Definition same_files (fs fs' : fsys) : Prop := forall q c, fs_get fs' q = Some (File c) <-> fs_get fs q = Some (File c).

Lemma same_files_refl fs : same_files fs fs.
Proof. intros q c. reflexivity. Qed.
Lemma same_files_trans a b c : same_files a b -> same_files b c -> same_files a c.
Proof. intros H1 H2 q x. rewrite (H2 q x). apply H1. Qed.
Lemma same_files_off T fs fs' : same_files fs fs' -> files_agree_off T fs fs'.
Proof. intros H q _ c. apply H. Qed.
Lemma files_agree_off_refl T fs : files_agree_off T fs fs.
Proof. intros q _ c. reflexivity. Qed.
Lemma files_agree_off_trans T a b c : files_agree_off T a b -> files_agree_off T b c -> files_agree_off T a c.
Proof. intros H1 H2 q Hq x. rewrite (H2 q Hq x). apply H1. exact Hq. Qed.

Lemma fs_lookup_snoc fs done n : fs_lookup fs (done ++ [n]) = fs_get fs (done ++ [n]).
Proof. unfold fs_lookup. destruct (done ++ [n]) eqn:E; [destruct done; discriminate | reflexivity]. Qed.

(* create_dir_all adds directories only *)
Lemma create_dirs_files : forall todo fs done fs', create_dirs fs done todo = Ok fs' -> same_files fs fs'.
Proof.
  induction todo as [|n r IH]; intros fs done fs' H; cbn [create_dirs] in H; [inversion H; apply same_files_refl|].
  destruct (fs_lookup fs (done ++ [n])) as [[c|]|] eqn:E; [discriminate | exact (IH _ _ _ H)|].
  apply (same_files_trans _ (fs_set fs (done ++ [n]) Dir)); [|exact (IH _ _ _ H)].
  intros q c. destruct (list_str_eqb (done ++ [n]) q) eqn:Eq.
  - apply list_str_eqb_spec in Eq. subst q. rewrite fs_get_set_same.
    assert (Hg : fs_get fs (done ++ [n]) = None) by (rewrite <- (fs_lookup_snoc fs done n); exact E).
    rewrite Hg. split; discriminate.
  - assert (done ++ [n] <> q) by (intros Hq; subst q; rewrite list_str_eqb_refl in Eq; discriminate). rewrite fs_get_set_other by assumption. reflexivity.
Qed.
Lemma create_dirs_no_panic : forall todo fs done m, create_dirs fs done todo <> Panic m.
Proof.
  induction todo as [|n r IH]; intros fs done m; cbn [create_dirs]; [discriminate|].
  destruct (fs_lookup fs (done ++ [n])) as [[c|]|]; [discriminate | apply IH | apply IH].
Qed.
(* a regular file on the way is an error *)
Lemma create_dirs_file_on_the_way : forall todo fs done pre n rest c,
  todo = pre ++ n :: rest -> fs_lookup fs (done ++ pre ++ [n]) = Some (File c) ->
  exists e, create_dirs fs done todo = Err e.
Proof.
  induction todo as [|x r IH]; intros fs done pre n rest c Ht Hf; [destruct pre; discriminate|].
  cbn [create_dirs]. destruct pre as [|y pre'].
  - cbn [app] in Ht, Hf. inversion Ht; subst x r. rewrite Hf. eexists. reflexivity.
  - cbn [app] in Ht. inversion Ht; subst x r.
    assert (Hshift : done ++ (y :: pre') ++ [n] = (done ++ [y]) ++ pre' ++ [n]) by (rewrite <- app_assoc; reflexivity).
    destruct (fs_lookup fs (done ++ [y])) as [[c'|]|] eqn:E; [eexists; reflexivity | |].
    + apply (IH fs (done ++ [y]) pre' n rest c eq_refl). rewrite <- Hshift. exact Hf.
    + apply (IH (fs_set fs (done ++ [y]) Dir) (done ++ [y]) pre' n rest c eq_refl).
      rewrite <- Hshift. replace (done ++ (y :: pre') ++ [n]) with ((done ++ y :: pre') ++ [n]) in * by (rewrite <- app_assoc; reflexivity).
      rewrite fs_lookup_snoc in *. rewrite fs_get_set_other; [exact Hf|]. intros Heq.
      apply (f_equal (@length _)) in Heq. rewrite !app_length in Heq. cbn [length] in Heq. lia.
Qed.

(* ---- export_and_merge ------------------------------------------------------------------------------ *)
Lemma file_create_ok fs p c fs' : file_create fs p c = Ok fs' -> fs' = fs_set fs p (File c).
Proof.
  unfold file_create. destruct (fs_lookup fs p) as [[x|]|]; try discriminate; destruct (parent_is_dir fs p); try discriminate; intros H; inversion H; reflexivity.
Qed.
Lemma file_create_no_panic fs p c m : file_create fs p c <> Panic m.
Proof. unfold file_create. destruct (fs_lookup fs p) as [[x|]|]; try discriminate; destruct (parent_is_dir fs p); discriminate. Qed.
Lemma file_create_dir fs p c : fs_lookup fs p = Some Dir -> file_create fs p c = Err io_error.
Proof. unfold file_create. intros ->. reflexivity. Qed.

(* a failing export_and_merge leaves the whole state as it was: nothing written, nothing recorded *)
Lemma eam_err st p name text st' e : export_and_merge st p name text = (st', Err e) -> st' = st.
Proof.
  unfold export_and_merge. destruct (s_poisoned st); [intros H; inversion H|].
  destruct (reg_get (s_reg st) p) as [names|].
  - destruct (existsb (str_eqb name) names); [intros H; inversion H|].
    destruct (file_open_read (s_fs st) p) as [old|m|m]; [destruct (merge_into_file old text) as [c|m|m]| |]; intros H; inversion H; reflexivity.
  - destruct (file_create (s_fs st) p text) as [fs'|m|m]; intros H; inversion H; reflexivity.
Qed.

Lemma eam_panic st p name text st' m : export_and_merge st p name text = (st', Panic m) -> s_fs st' = s_fs st /\ s_reg st' = s_reg st.
Proof.
  unfold export_and_merge. destruct (s_poisoned st); [intros H; inversion H; split; reflexivity|].
  destruct (reg_get (s_reg st) p) as [names|].
  - destruct (existsb (str_eqb name) names); [intros H; inversion H|].
    destruct (file_open_read (s_fs st) p) as [old|e|e]; [destruct (merge_into_file old text) as [c|e|e]| |]; intros H; inversion H; split; reflexivity.
  - destruct (file_create (s_fs st) p text) as [fs'|e|e]; intros H; inversion H; split; reflexivity.
Qed.

(* a successful one: either the name was recorded already and nothing changes, or the file at p is (re)written and the
   name recorded; first touch truncates, later touches merge *)
Lemma eam_ok st p name text st' : export_and_merge st p name text = (st', Ok tt) ->
  s_poisoned st = false /\
  ((exists ns, reg_get (s_reg st) p = Some ns /\ existsb (str_eqb name) ns = true /\ st' = st) \/
   (exists c, st' = {| s_fs := fs_set (s_fs st) p (File c); s_reg := reg_add (s_reg st) p name; s_poisoned := false |} /\
      ((reg_get (s_reg st) p = None /\ c = text /\ exists fs', file_create (s_fs st) p text = Ok fs') \/
       (exists ns old, reg_get (s_reg st) p = Some ns /\ existsb (str_eqb name) ns = false /\
                       fs_lookup (s_fs st) p = Some (File old) /\ merge_into_file old text = Ok c)))).
Proof.
  unfold export_and_merge. destruct (s_poisoned st); [intros H; inversion H|]. intros H0. split; [reflexivity|]. revert H0.
  destruct (reg_get (s_reg st) p) as [names|].
  - destruct (existsb (str_eqb name) names) eqn:Ex; [intros H; inversion H; left; exists names; auto|].
    unfold file_open_read. destruct (fs_lookup (s_fs st) p) as [[old|]|] eqn:El; try (intros H; inversion H; fail).
    destruct (merge_into_file old text) as [c|m|m] eqn:Em; intros H; inversion H. right. exists c. split; [reflexivity|]. right. exists names, old. auto.
  - destruct (file_create (s_fs st) p text) as [fs'|m|m] eqn:Ef; intros H; inversion H. right. exists text. rewrite (file_create_ok _ _ _ _ Ef).
    split; [reflexivity|]. left. split; [reflexivity|]. split; [reflexivity|]. exists fs'. rewrite <- (file_create_ok _ _ _ _ Ef). reflexivity.
Qed.

(* whatever the outcome: the registry only grows, and no other path of the file system is touched *)
Lemma eam_frame st p name text st' r : export_and_merge st p name text = (st', r) ->
  reg_le (s_reg st) (s_reg st') /\ (forall q, q <> p -> fs_get (s_fs st') q = fs_get (s_fs st) q) /\
  (forall q, q <> p -> reg_get (s_reg st') q = reg_get (s_reg st) q).
Proof.
  intros H. destruct r as [[]|e|m].
  - destruct (eam_ok _ _ _ _ _ H) as [_ [(ns & _ & _ & ->)|(c & -> & _)]].
    + split; [apply reg_le_refl|]. split; reflexivity.
    + cbn [s_fs s_reg]. split; [apply reg_le_add|]. split; intros q Hq; [apply fs_get_set_other | apply reg_get_add_other]; congruence.
  - rewrite (eam_err _ _ _ _ _ _ H). split; [apply reg_le_refl|]. split; reflexivity.
  - destruct (eam_panic _ _ _ _ _ _ H) as [-> ->]. split; [apply reg_le_refl|]. split; reflexivity.
Qed.

(* ---- normalised paths ------------------------------------------------------------------------------- *)
From TsRs Require Import Proofs.Path_proofs.

Lemma comp_of_name n : name_ok n = true -> comp_of false n = [Normal n].
Proof.
  unfold name_ok, comp_of. intros H. apply andb_true_iff in H as [H _]. apply andb_true_iff in H as [H H3]. apply andb_true_iff in H as [H1 H2].
  apply negb_true_iff in H1, H2, H3. rewrite H1, H2, H3. reflexivity.
Qed.
Lemma flat_comp_of_names ns : names_ok ns -> flat_map (comp_of false) ns = map Normal ns.
Proof. induction 1 as [|n l Hn _ IH]; [reflexivity|]. cbn [flat_map map]. rewrite (comp_of_name n Hn), IH. reflexivity. Qed.

(* the rendering of a normalised absolute path reads back as itself *)
Lemma components_render ns : names_ok ns -> components (render (Root :: map Normal ns)) = Root :: map Normal ns.
Proof.
  intros H. cbn [render]. unfold components. change (slash =? slash)%N with true. cbv iota. f_equal.
  destruct ns as [|n l]; [reflexivity|]. rewrite map_map. cbn [comp_text]. rewrite map_id.
  rewrite split_join; [apply flat_comp_of_names; exact H | discriminate | apply names_ok_noslash; exact H].
Qed.

Section SM.
Variable cfg : config.
Variable U : universe.
Hypothesis Hcwd : names_ok (c_cwd cfg).

Notation export_to := (export_to cfg U).
Notation export_into := (export_into cfg U).
Notation export_recursive := (export_recursive cfg U).
Notation step := (step cfg U).

(* the one path a call with this path string can write *)
Definition target_of (path : str) : option apath :=
  match absolute (c_cwd cfg) path with Ok cs => Some (names_of_abs cs) | _ => None end.

Lemma absolute_render path cs : absolute (c_cwd cfg) path = Ok cs -> absolute (c_cwd cfg) (render cs) = Ok cs.
Proof.
  unfold absolute. intros H. destruct (absolute_shape _ _ _ Hcwd (components_wf path) H) as (ns & -> & Hns).
  rewrite (components_render ns Hns). apply absolute_idempotent.
Qed.

Definition registered (reg : list (apath * list str)) (p : apath) (name : str) : Prop :=
  exists ns, reg_get reg p = Some ns /\ In name ns.

Lemma registered_le r r' p n : reg_le r r' -> registered r p n -> registered r' p n.
Proof. intros H (ns & H1 & H2). destruct (H p ns H1) as (ns' & G1 & G2). exists ns'. split; [exact G1 | apply G2; exact H2]. Qed.

Lemma eam_registers st p name text st' : export_and_merge st p name text = (st', Ok tt) -> registered (s_reg st') p name.
Proof.
  intros H. destruct (eam_ok _ _ _ _ _ H) as [_ [(ns & Hr & Hex & ->)|(c & -> & _)]].
  - exists ns. split; [exact Hr|]. apply existsb_exists in Hex as (x & Hx & He). apply str_eqb_eq in He. subst x. exact Hx.
  - unfold registered. cbn [s_reg]. rewrite reg_get_add_same. eexists. split; [reflexivity | left; reflexivity].
Qed.

(* ---- export_to: one call ---- *)
Lemma export_to_frame st i path st' r : export_to st i path = (st', r) ->
  reg_le (s_reg st) (s_reg st') /\
  files_agree_off (fun q => target_of path = Some q) (s_fs st) (s_fs st') /\
  (forall q, target_of path <> Some q -> reg_get (s_reg st') q = reg_get (s_reg st) q).
Proof.
  unfold ExportSM.export_to, target_of. intros H.
  assert (Hrefl : st' = st -> reg_le (s_reg st) (s_reg st') /\ files_agree_off (fun q => match absolute (c_cwd cfg) path with Ok cs => Some (names_of_abs cs) | _ => None end = Some q) (s_fs st) (s_fs st') /\
                  (forall q, match absolute (c_cwd cfg) path with Ok cs => Some (names_of_abs cs) | _ => None end <> Some q -> reg_get (s_reg st') q = reg_get (s_reg st) q)).
  { intros ->. split; [apply reg_le_refl|]. split; [apply files_agree_off_refl | reflexivity]. }
  destruct (absolute (c_cwd cfg) path) as [cs|e|m]; try (inversion H; subst; apply Hrefl; reflexivity).
  destruct (export_to_string _ _ _ _ _) as [buffer|e|m]; try (inversion H; subst; apply Hrefl; reflexivity).
  set (p := names_of_abs cs) in *.
  assert (Hd : forall fs1, (match parent_of p with Some d => create_dir_all (s_fs st) d | None => Ok (s_fs st) end) = Ok fs1 -> same_files (s_fs st) fs1).
  { intros fs1. destruct (parent_of p); [apply create_dirs_files | intros E; inversion E; apply same_files_refl]. }
  destruct (match parent_of p with Some d => create_dir_all (s_fs st) d | None => Ok (s_fs st) end) as [fs1|e|m]; try (inversion H; subst; apply Hrefl; reflexivity).
  specialize (Hd fs1 eq_refl). destruct (eam_frame _ _ _ _ _ _ H) as (H1 & H2 & H3). cbn [s_reg s_fs] in *.
  split; [exact H1|]. split.
  - intros q Hq c. rewrite (H2 q) by (intros ->; apply Hq; reflexivity). apply Hd.
  - intros q Hq. apply H3. intros ->. apply Hq. reflexivity.
Qed.

(* a failed export_to: nothing recorded, no regular file changed (directories created on the way stay) *)
Lemma export_to_err st i path st' e : export_to st i path = (st', Err e) ->
  s_reg st' = s_reg st /\ s_poisoned st' = s_poisoned st /\ same_files (s_fs st) (s_fs st').
Proof.
  unfold ExportSM.export_to. intros H.
  assert (Hrefl : st' = st -> s_reg st' = s_reg st /\ s_poisoned st' = s_poisoned st /\ same_files (s_fs st) (s_fs st')).
  { intros ->. split; [reflexivity|]. split; [reflexivity | apply same_files_refl]. }
  destruct (absolute (c_cwd cfg) path) as [cs|e0|m]; try (inversion H; subst; apply Hrefl; reflexivity).
  destruct (export_to_string _ _ _ _ _) as [buffer|e0|m]; try (inversion H; subst; apply Hrefl; reflexivity).
  set (p := names_of_abs cs) in *.
  assert (Hd : forall fs1, (match parent_of p with Some d => create_dir_all (s_fs st) d | None => Ok (s_fs st) end) = Ok fs1 -> same_files (s_fs st) fs1).
  { intros fs1. destruct (parent_of p); [apply create_dirs_files | intros E; inversion E; apply same_files_refl]. }
  destruct (match parent_of p with Some d => create_dir_all (s_fs st) d | None => Ok (s_fs st) end) as [fs1|e0|m]; try (inversion H; subst; apply Hrefl; reflexivity).
  rewrite (eam_err _ _ _ _ _ _ H). cbn [s_reg s_poisoned s_fs]. split; [reflexivity|]. split; [reflexivity | exact (Hd fs1 eq_refl)].
Qed.

(* a successful export_to records the type's name under the normalised path *)
Lemma export_to_ok st i path st' : export_to st i path = (st', Ok tt) ->
  exists p, target_of path = Some p /\ registered (s_reg st') p (t_ident (tget U i)).
Proof.
  unfold ExportSM.export_to, target_of. intros H.
  destruct (absolute (c_cwd cfg) path) as [cs|e|m]; try (inversion H; fail).
  destruct (export_to_string _ _ _ _ _) as [buffer|e|m]; try (inversion H; fail).
  destruct (match parent_of (names_of_abs cs) with Some d => create_dir_all (s_fs st) d | None => Ok (s_fs st) end) as [fs1|e|m]; try (inversion H; fail).
  exists (names_of_abs cs). split; [reflexivity | exact (eam_registers _ _ _ _ _ H)].
Qed.

(* a path that climbs above the root is an error, with the state untouched *)
Lemma export_to_above_root st i path e : absolute (c_cwd cfg) path = Err e ->
  export_to st i path = (st, Err err_cannot_export).
Proof. unfold ExportSM.export_to. intros ->. reflexivity. Qed.

(* ---- export_into ---- *)
(* the file of type i under base directory dir: base joined with the type's own output path, normalised *)
Definition target (i : nat) (dir : str) : option apath :=
  match t_out (tget U i) with Some op => target_of (path_join dir op) | None => None end.

Lemma export_into_unfold st i dir op cs : t_out (tget U i) = Some op -> absolute (c_cwd cfg) (path_join dir op) = Ok cs ->
  export_into st i dir = export_to st i (render cs) /\ target_of (render cs) = target i dir.
Proof.
  intros Ho Ha. unfold ExportSM.export_into, target, target_of. rewrite Ho, Ha, (absolute_render _ _ Ha). split; reflexivity.
Qed.

Lemma export_into_not_exportable st i dir : t_out (tget U i) = None -> export_into st i dir = (st, Err err_cannot_export).
Proof. unfold ExportSM.export_into. intros ->. reflexivity. Qed.

Lemma export_into_frame st i dir st' r : export_into st i dir = (st', r) ->
  reg_le (s_reg st) (s_reg st') /\
  files_agree_off (fun q => target i dir = Some q) (s_fs st) (s_fs st') /\
  (forall q, target i dir <> Some q -> reg_get (s_reg st') q = reg_get (s_reg st) q).
Proof.
  intros H.
  assert (Hrefl : st' = st -> reg_le (s_reg st) (s_reg st') /\ files_agree_off (fun q => target i dir = Some q) (s_fs st) (s_fs st') /\
                  (forall q, target i dir <> Some q -> reg_get (s_reg st') q = reg_get (s_reg st) q)).
  { intros ->. split; [apply reg_le_refl|]. split; [apply files_agree_off_refl | reflexivity]. }
  destruct (t_out (tget U i)) as [op|] eqn:Ho; [|rewrite (export_into_not_exportable _ _ _ Ho) in H; inversion H; subst; apply Hrefl; reflexivity].
  destruct (absolute (c_cwd cfg) (path_join dir op)) as [cs|e|m] eqn:Ha.
  - destruct (export_into_unfold st i dir op cs Ho Ha) as [E1 E2]. rewrite E1 in H. rewrite <- E2. exact (export_to_frame _ _ _ _ _ H).
  - unfold ExportSM.export_into in H. rewrite Ho, Ha in H. inversion H; subst. apply Hrefl. reflexivity.
  - unfold ExportSM.export_into in H. rewrite Ho, Ha in H. inversion H; subst. apply Hrefl. reflexivity.
Qed.

Lemma export_into_err st i dir st' e : export_into st i dir = (st', Err e) ->
  s_reg st' = s_reg st /\ s_poisoned st' = s_poisoned st /\ same_files (s_fs st) (s_fs st').
Proof.
  intros H.
  assert (Hrefl : st' = st -> s_reg st' = s_reg st /\ s_poisoned st' = s_poisoned st /\ same_files (s_fs st) (s_fs st')).
  { intros ->. split; [reflexivity|]. split; [reflexivity | apply same_files_refl]. }
  destruct (t_out (tget U i)) as [op|] eqn:Ho; [|rewrite (export_into_not_exportable _ _ _ Ho) in H; inversion H; subst; apply Hrefl; reflexivity].
  destruct (absolute (c_cwd cfg) (path_join dir op)) as [cs|e0|m] eqn:Ha.
  - destruct (export_into_unfold st i dir op cs Ho Ha) as [E1 _]. rewrite E1 in H. exact (export_to_err _ _ _ _ _ H).
  - unfold ExportSM.export_into in H. rewrite Ho, Ha in H. inversion H; subst. apply Hrefl. reflexivity.
  - unfold ExportSM.export_into in H. rewrite Ho, Ha in H. inversion H.
Qed.

Lemma export_into_ok st i dir st' : export_into st i dir = (st', Ok tt) ->
  exists p, target i dir = Some p /\ registered (s_reg st') p (t_ident (tget U i)).
Proof.
  intros H. destruct (t_out (tget U i)) as [op|] eqn:Ho; [|rewrite (export_into_not_exportable _ _ _ Ho) in H; inversion H].
  destruct (absolute (c_cwd cfg) (path_join dir op)) as [cs|e|m] eqn:Ha; try (unfold ExportSM.export_into in H; rewrite Ho, Ha in H; inversion H; fail).
  destruct (export_into_unfold st i dir op cs Ho Ha) as [E1 E2]. rewrite E1 in H. rewrite <- E2. exact (export_to_ok _ _ _ _ H).
Qed.

(* ---- the recursive walk ------------------------------------------------------------------------------ *)
(* the exportable types reachable from a root through visit_dependencies *)
Inductive reach (root : nat) : nat -> Prop :=
| reach_root : reach root root
| reach_step j k : reach root j -> In k (t_visits (tget U j)) -> t_out (tget U k) <> None -> reach root k.

Definition walk_step (f : nat) (dir : str) (acc : state * list nat * outcome unit) (d : nat) : state * list nat * outcome unit :=
  let '(s, sn, r) := acc in
  match r with
  | Ok _ => match t_out (tget U d) with None => acc | Some _ => export_recursive f s sn d dir end
  | _ => acc
  end.

Lemma export_recursive_S f st seen i dir :
  export_recursive (S f) st seen i dir =
  if existsb (Nat.eqb i) seen then (st, seen, Ok tt)
  else match export_into st i dir with
       | (st1, Ok _) => fold_left (walk_step f dir) (t_visits (tget U i)) (st1, i :: seen, Ok tt)
       | (st1, r) => (st1, i :: seen, r)
       end.
Proof. reflexivity. Qed.

(* any reflexive, transitive relation on states that every single export_into of an admissible node satisfies is
   satisfied by the whole walk *)
Section WalkRel.
Variable Rl : state -> state -> Prop.
Variable N : nat -> Prop.
Variable dir : str.
Hypothesis Rl_refl : forall s, Rl s s.
Hypothesis Rl_trans : forall a b c, Rl a b -> Rl b c -> Rl a c.
Hypothesis N_step : forall j k, N j -> In k (t_visits (tget U j)) -> t_out (tget U k) <> None -> N k.
Hypothesis Rl_into : forall st i st' r, N i -> export_into st i dir = (st', r) -> Rl st st'.

Lemma walk_rel : forall fuel st seen i st' seen' r, N i -> export_recursive fuel st seen i dir = (st', seen', r) -> Rl st st'.
Proof.
  induction fuel as [|f IH]; intros st seen i st' seen' r Hn H; [inversion H; apply Rl_refl|].
  rewrite export_recursive_S in H. destruct (existsb (Nat.eqb i) seen); [inversion H; apply Rl_refl|].
  destruct (export_into st i dir) as [st1 r1] eqn:E. pose proof (Rl_into _ _ _ _ Hn E) as H1.
  assert (Hfold : forall l acc, (forall d, In d l -> t_out (tget U d) <> None -> N d) -> Rl st (fst (fst acc)) ->
                  fold_left (walk_step f dir) l acc = (st', seen', r) -> Rl st st').
  { induction l as [|d l IHl]; intros acc Hl Ha Hf; cbn [fold_left] in Hf; [rewrite Hf in Ha; exact Ha|].
    apply (IHl (walk_step f dir acc d)); [intros d' Hd'; apply Hl; right; exact Hd' | | exact Hf].
    destruct acc as [[s sn] r0]. cbn [walk_step fst] in *. destruct r0 as [u|e|m]; try exact Ha.
    destruct (t_out (tget U d)) eqn:Eo; [|exact Ha].
    destruct (export_recursive f s sn d dir) as [[s2 sn2] r2] eqn:E2. cbn [fst].
    apply (Rl_trans _ s); [exact Ha|]. apply (IH _ _ _ _ _ _ (Hl d (or_introl eq_refl) ltac:(rewrite Eo; discriminate)) E2). }
  destruct r1 as [[]|e|m]; try (inversion H; subst; exact H1).
  apply (Hfold _ (st1, i :: seen, Ok tt) (fun d Hd Ho => N_step i d Hn Hd Ho) H1 H).
Qed.
End WalkRel.

(* a successful walk: every node it saw for the first time was exported with success (its name is recorded under its
   target), and its exportable dependencies were seen too *)
Definition new_ok (dir : str) (st' : state) (seen' : list nat) (j : nat) : Prop :=
  (exists p, target j dir = Some p /\ registered (s_reg st') p (t_ident (tget U j))) /\
  (forall k, In k (t_visits (tget U j)) -> t_out (tget U k) <> None -> In k seen').

Lemma walk_reg_le dir : forall fuel st seen i st' seen' r, export_recursive fuel st seen i dir = (st', seen', r) -> reg_le (s_reg st) (s_reg st').
Proof.
  intros fuel st seen i st' seen' r H.
  apply (walk_rel (fun a b => reg_le (s_reg a) (s_reg b)) (fun _ => True) dir (fun s => reg_le_refl _) (fun a b c => reg_le_trans _ _ _)
           (fun _ _ _ _ _ => I) (fun st0 i0 st1 r1 _ E => proj1 (export_into_frame _ _ _ _ _ E)) fuel st seen i st' seen' r I H).
Qed.

Lemma new_ok_lift dir s sn s' sn' j : reg_le (s_reg s) (s_reg s') -> incl sn sn' -> new_ok dir s sn j -> new_ok dir s' sn' j.
Proof.
  intros Hr Hi [(p & Hp & Hreg) Hk]. split; [exists p; split; [exact Hp | exact (registered_le _ _ _ _ Hr Hreg)]|].
  intros k H1 H2. apply Hi. exact (Hk k H1 H2).
Qed.

Lemma walk_closed dir : forall fuel st seen i st' seen', export_recursive fuel st seen i dir = (st', seen', Ok tt) ->
  incl seen seen' /\ In i seen' /\ (forall j, In j seen' -> ~ In j seen -> new_ok dir st' seen' j).
Proof.
  induction fuel as [|f IH]; intros st seen i st' seen' H; [inversion H|].
  rewrite export_recursive_S in H. destruct (existsb (Nat.eqb i) seen) eqn:Ex.
  - inversion H; subst. split; [apply incl_refl|]. split; [|intros j H1 H2; contradiction].
    apply existsb_exists in Ex as (x & Hx & He). apply PeanoNat.Nat.eqb_eq in He. subst x. exact Hx.
  - destruct (export_into st i dir) as [st1 r1] eqn:E. destruct r1 as [[]|e|m]; try (inversion H; fail).
    assert (Hfold : forall l acc, fold_left (walk_step f dir) l acc = (st', seen', Ok tt) ->
              snd acc = Ok tt /\ incl (snd (fst acc)) seen' /\ reg_le (s_reg (fst (fst acc))) (s_reg st') /\
              (forall d, In d l -> t_out (tget U d) <> None -> In d seen') /\
              (forall j, In j seen' -> ~ In j (snd (fst acc)) -> new_ok dir st' seen' j)).
    { induction l as [|d l IHl]; intros acc Hf; cbn [fold_left] in Hf.
      - subst acc. cbn [fst snd]. split; [reflexivity|]. split; [apply incl_refl|]. split; [apply reg_le_refl|].
        split; [intros d []|]. intros j H1 H2. contradiction.
      - destruct (IHl _ Hf) as (A1 & A2 & A3 & A4 & A5). destruct acc as [[s sn] r0]. cbn [walk_step fst snd] in *.
        destruct r0 as [[]|e|m]; try discriminate A1.
        destruct (t_out (tget U d)) eqn:Eo.
        + destruct (export_recursive f s sn d dir) as [[s2 sn2] r2] eqn:E2. cbn [fst snd] in *. subst r2.
          destruct (IH _ _ _ _ _ E2) as (B1 & B2 & B3). pose proof (walk_reg_le dir _ _ _ _ _ _ _ E2) as B4.
          split; [reflexivity|]. split; [eapply incl_tran; eassumption|]. split; [eapply reg_le_trans; eassumption|]. split.
          * intros d' [<-|Hd'] Ho; [apply A2; exact B2 | apply A4; assumption].
          * intros j H1 H2. destruct (in_dec PeanoNat.Nat.eq_dec j sn2) as [Hin|Hnin]; [|apply A5; assumption].
            apply (new_ok_lift dir s2 sn2); [exact A3 | exact A2 | apply B3; assumption].
        + split; [reflexivity|]. split; [exact A2|]. split; [exact A3|]. split; [|exact A5].
          intros d' [<-|Hd'] Ho; [contradiction Ho; exact Eo | apply A4; assumption]. }
    destruct (Hfold _ _ H) as (_ & A2 & A3 & A4 & A5). cbn [fst snd] in *.
    split; [intros x Hx; apply A2; right; exact Hx|]. split; [apply A2; left; reflexivity|].
    intros j H1 H2. destruct (PeanoNat.Nat.eq_dec j i) as [->|Hne].
    + split; [|intros k Hk Ho; apply A4; assumption].
      destruct (export_into_ok _ _ _ _ E) as (p & Hp & Hreg). exists p. split; [exact Hp | exact (registered_le _ _ _ _ A3 Hreg)].
    + apply A5; [exact H1|]. intros [Hji|Hjs]; [apply Hne; symmetry; exact Hji | apply H2; exact Hjs].
Qed.

(* export_all / export_all_to: every exportable type reachable from the root is exported *)
Theorem export_all_complete st i dir st' : export_all_into cfg U st i dir = (st', Ok tt) ->
  forall j, reach i j -> exists p, target j dir = Some p /\ registered (s_reg st') p (t_ident (tget U j)).
Proof.
  unfold export_all_into. destruct (ExportSM.export_recursive cfg U (S (length U)) st [] i dir) as [[s sn] r] eqn:E.
  intros H. inversion H; subst s r. destruct (walk_closed dir _ _ _ _ _ _ E) as (_ & Hi & Hnew).
  assert (Hall : forall j, reach i j -> In j sn).
  { induction 1 as [|j k Hr IHr Hk Ho]; [exact Hi|]. exact (proj2 (Hnew j IHr (fun x => x)) k Hk Ho). }
  intros j Hj. exact (proj1 (Hnew j (Hall j Hj) (fun x => x))).
Qed.

(* ... and nothing else is touched: regular files and registry entries change only at targets of reachable types,
   whatever the outcome; the registry never loses an entry *)
Theorem export_all_frame st i dir st' r : export_all_into cfg U st i dir = (st', r) ->
  reg_le (s_reg st) (s_reg st') /\
  files_agree_off (fun q => exists j, reach i j /\ target j dir = Some q) (s_fs st) (s_fs st') /\
  (forall q, (forall j, reach i j -> target j dir <> Some q) -> reg_get (s_reg st') q = reg_get (s_reg st) q).
Proof.
  unfold export_all_into. destruct (ExportSM.export_recursive cfg U (S (length U)) st [] i dir) as [[s sn] r0] eqn:E.
  intros H. inversion H; subst s r0. clear H.
  set (T := fun q => exists j, reach i j /\ target j dir = Some q).
  set (Rl := fun a b : state => reg_le (s_reg a) (s_reg b) /\ files_agree_off T (s_fs a) (s_fs b) /\
                              (forall q, ~ T q -> reg_get (s_reg b) q = reg_get (s_reg a) q)).
  assert (G : Rl st st').
  { apply (walk_rel Rl (reach i) dir) with (fuel := S (length U)) (seen := []) (i := i) (seen' := sn) (r := r); [| | | |exact (reach_root i) | exact E].
    - intros x. split; [apply reg_le_refl|]. split; [apply files_agree_off_refl | reflexivity].
    - intros a b c (A1 & A2 & A3) (B1 & B2 & B3). split; [eapply reg_le_trans; eassumption|]. split; [eapply files_agree_off_trans; eassumption|].
      intros q Hq. rewrite (B3 q Hq). apply A3. exact Hq.
    - intros j k Hj Hk Ho. exact (reach_step i j k Hj Hk Ho).
    - intros s0 j s1 r1 Hj Ej. destruct (export_into_frame _ _ _ _ _ Ej) as (F1 & F2 & F3). split; [exact F1|]. split.
      + intros q Hq c. apply F2. intros Ht. apply Hq. exists j. split; assumption.
      + intros q Hq. apply F3. intros Ht. apply Hq. exists j. split; assumption. }
  destruct G as (G1 & G2 & G3). split; [exact G1|]. split; [exact G2|]. intros q Hq. apply G3. intros (j & Hj & Ht). exact (Hq j Hj Ht).
Qed.
End SM.

(* ---- entry points and histories ---------------------------------------------------------------------- *)
Lemma create_dirs_keeps : forall todo fs done fs', create_dirs fs done todo = Ok fs' -> forall q n, fs_get fs q = Some n -> fs_get fs' q = Some n.
Proof.
  induction todo as [|x r IH]; intros fs done fs' H q n Hq; cbn [create_dirs] in H; [inversion H; subst; exact Hq|].
  destruct (fs_lookup fs (done ++ [x])) as [[c|]|] eqn:E; [discriminate | exact (IH _ _ _ H q n Hq)|].
  apply (IH _ _ _ H q n). rewrite fs_get_set_other; [exact Hq|]. intros Heq. subst q. rewrite fs_lookup_snoc in E. congruence.
Qed.

Section Entry.
Variable cfg : config.
Variable U : universe.
Hypothesis Hcwd : names_ok (c_cwd cfg).
Notation step := (step cfg U).

Definition is_export (o : op) : bool := match o with Export _ | ExportAll _ | ExportAllTo _ _ => true | _ => false end.

(* T::export() and T::export_all() of a type without dependencies go through the same normalised path: after the fix that
   normalises in export_to, the entry point used cannot be observed *)
Lemma export_is_export_into st i : step st (Export i) = export_into cfg U st i (default_out_dir cfg).
Proof.
  cbn [ExportSM.step]. unfold ExportSM.export_into. destruct (t_out (tget U i)) as [op|]; [|reflexivity].
  destruct (absolute (c_cwd cfg) (path_join (default_out_dir cfg) op)) as [cs|e|m] eqn:Ha.
  - unfold ExportSM.export_to. rewrite Ha, (absolute_render cfg Hcwd _ _ Ha). reflexivity.
  - unfold ExportSM.export_to. rewrite Ha. reflexivity.
  - unfold ExportSM.export_to. rewrite Ha. reflexivity.
Qed.

(* two spellings of one directory: the same call *)
Lemma export_into_spelling st i d1 d2 :
  (forall op, t_out (tget U i) = Some op -> absolute (c_cwd cfg) (path_join d1 op) = absolute (c_cwd cfg) (path_join d2 op)) ->
  export_into cfg U st i d1 = export_into cfg U st i d2.
Proof. intros H. unfold ExportSM.export_into. destruct (t_out (tget U i)) as [op|]; [|reflexivity]. rewrite (H op eq_refl). reflexivity. Qed.

(* the registry never loses an entry within a process *)
Theorem step_reg_le st o st' r : (match o with NewProcess => False | _ => True end) -> step st o = (st', r) -> reg_le (s_reg st) (s_reg st').
Proof.
  intros Ho H. destruct o as [i|i|i dir| |p|p c|p]; try contradiction; [rewrite export_is_export_into in H | cbn [ExportSM.step] in H ..].
  - exact (proj1 (export_into_frame cfg U Hcwd _ _ _ _ _ H)).
  - exact (proj1 (export_all_frame cfg U Hcwd _ _ _ _ _ H)).
  - exact (proj1 (export_all_frame cfg U Hcwd _ _ _ _ _ H)).
  - inversion H. apply reg_le_refl.
  - inversion H. apply reg_le_refl.
  - inversion H. apply reg_le_refl.
Qed.

Theorem run_reg_le : forall h st st' rs, Forall (fun o => match o with NewProcess => False | _ => True end) h ->
  run cfg U st h = (st', rs) -> reg_le (s_reg st) (s_reg st').
Proof.
  induction h as [|o h IH]; intros st st' rs Hh H; cbn [run] in H; [inversion H; apply reg_le_refl|].
  inversion Hh as [|? ? Ho Hr]; subst. destruct (ExportSM.step cfg U st o) as [st1 r1] eqn:E1. destruct (run cfg U st1 h) as [st2 rs2] eqn:E2.
  inversion H; subst. eapply reg_le_trans; [exact (step_reg_le _ _ _ _ Ho E1) | exact (IH _ _ _ Hr E2)].
Qed.

(* a failed T::export(): nothing recorded, no regular file changed *)
Theorem export_failed_frame st i st' e : step st (Export i) = (st', Err e) ->
  s_reg st' = s_reg st /\ s_poisoned st' = s_poisoned st /\ same_files (s_fs st) (s_fs st').
Proof. rewrite export_is_export_into. apply (export_into_err cfg U Hcwd). Qed.

(* a type that cannot be exported: an error, the state as it was; for every entry point *)
Theorem not_exportable_is_error st i dir : t_out (tget U i) = None ->
  step st (Export i) = (st, Err err_cannot_export) /\ step st (ExportAll i) = (st, Err err_cannot_export) /\
  step st (ExportAllTo i dir) = (st, Err err_cannot_export).
Proof.
  intros H. split; [cbn [ExportSM.step]; rewrite H; reflexivity|].
  assert (G : forall d, export_all_into cfg U st i d = (st, Err err_cannot_export)).
  { intros d. unfold export_all_into. cbn [ExportSM.export_recursive existsb]. rewrite (export_into_not_exportable cfg U st i d H). reflexivity. }
  split; apply G.
Qed.

(* a target above the file system root: an error, the state as it was *)
Theorem above_root_is_error st i op e : t_out (tget U i) = Some op ->
  absolute (c_cwd cfg) (path_join (default_out_dir cfg) op) = Err e ->
  step st (Export i) = (st, Err err_cannot_export) /\ step st (ExportAll i) = (st, Err err_cannot_export).
Proof.
  intros Ho Ha. split; [cbn [ExportSM.step]; rewrite Ho; exact (export_to_above_root cfg U st i _ e Ha)|].
  cbn [ExportSM.step]. unfold export_all_into. cbn [ExportSM.export_recursive existsb].
  unfold ExportSM.export_into. rewrite Ho, Ha. reflexivity.
Qed.

(* the target is a directory: an I/O error, nothing recorded, no regular file changed *)
Theorem target_is_directory st i path cs buffer : absolute (c_cwd cfg) path = Ok cs ->
  export_to_string (c_esm cfg) (c_cwd cfg) U i (default_out_dir cfg) = Ok buffer ->
  s_poisoned st = false -> reg_get (s_reg st) (names_of_abs cs) = None ->
  fs_lookup (s_fs st) (names_of_abs cs) = Some Dir ->
  exists st' e, ExportSM.export_to cfg U st i path = (st', Err e) /\
                s_reg st' = s_reg st /\ s_poisoned st' = s_poisoned st /\ same_files (s_fs st) (s_fs st').
Proof.
  intros Ha Hb Hp Hr Hd.
  assert (G : exists st' e, ExportSM.export_to cfg U st i path = (st', Err e)).
  { unfold ExportSM.export_to. rewrite Ha, Hb.
    destruct (match parent_of (names_of_abs cs) with Some d => create_dir_all (s_fs st) d | None => Ok (s_fs st) end) as [fs1|e|m] eqn:Ed.
    - unfold export_and_merge. cbn [s_poisoned s_reg s_fs]. rewrite Hp, Hr.
      assert (Hd1 : fs_lookup fs1 (names_of_abs cs) = Some Dir).
      { destruct (parent_of (names_of_abs cs)) as [d|]; [|inversion Ed; subst; exact Hd].
        unfold fs_lookup in *. destruct (names_of_abs cs) as [|x l] eqn:En; [reflexivity|]. exact (create_dirs_keeps _ _ _ _ Ed _ _ Hd). }
      rewrite (file_create_dir _ _ _ Hd1). eexists. eexists. reflexivity.
    - eexists. eexists. reflexivity.
    - exfalso. destruct (parent_of (names_of_abs cs)); [exact (create_dirs_no_panic _ _ _ _ Ed) | discriminate Ed]. }
  destruct G as (st' & e & G). exists st', e. split; [exact G | exact (export_to_err cfg U _ _ _ _ _ G)].
Qed.

(* a component of the parent path is a regular file: an I/O error, the state as it was *)
Theorem parent_is_file st i path cs buffer d pre n rest c : absolute (c_cwd cfg) path = Ok cs ->
  export_to_string (c_esm cfg) (c_cwd cfg) U i (default_out_dir cfg) = Ok buffer ->
  parent_of (names_of_abs cs) = Some d -> d = pre ++ n :: rest -> fs_lookup (s_fs st) (pre ++ [n]) = Some (File c) ->
  exists e, ExportSM.export_to cfg U st i path = (st, Err e).
Proof.
  intros Ha Hb Hp Hd Hf. unfold ExportSM.export_to. rewrite Ha, Hb, Hp. unfold create_dir_all.
  destruct (create_dirs_file_on_the_way d (s_fs st) [] pre n rest c Hd Hf) as (e & ->). exists e. reflexivity.
Qed.

(* first touch in a process truncates: what was in the file before cannot leak into it *)
Theorem first_touch_truncates st p name text st' : reg_get (s_reg st) p = None ->
  export_and_merge st p name text = (st', Ok tt) -> fs_get (s_fs st') p = Some (File text) /\ reg_get (s_reg st') p = Some [name].
Proof.
  intros Hr H. destruct (eam_ok _ _ _ _ _ H) as [_ [(ns & Hr' & _)|(c & -> & [(_ & -> & _)|(ns & old & Hr' & _)])]]; try congruence.
  cbn [s_fs s_reg]. rewrite fs_get_set_same, reg_get_add_same, Hr. split; reflexivity.
Qed.
End Entry.

(* ---- one path of the state is the single-file model of C05 -------------------------------------------- *)
Definition content_at (fs : fsys) (p : apath) : option str := match fs_get fs p with Some (File c) => Some c | _ => None end.
Definition view (st : state) (p : apath) : fstate :=
  match reg_get (s_reg st) p with
  | None => f_init
  | Some ns => {| f_content := content_at (s_fs st) p; f_names := ns |}
  end.
(* every recorded path is a regular file below the root *)
Definition Inv (st : state) : Prop := forall p ns, reg_get (s_reg st) p = Some ns -> p <> [] /\ exists c, fs_get (s_fs st) p = Some (File c).

Lemma Inv_init fs : Inv (init_state fs).
Proof. intros p ns H. discriminate H. Qed.

Lemma fs_lookup_nonroot fs p : p <> [] -> fs_lookup fs p = fs_get fs p.
Proof. destruct p; [contradiction | reflexivity]. Qed.

Lemma same_files_content fs fs' p : same_files fs fs' -> content_at fs' p = content_at fs p.
Proof.
  intros H. unfold content_at. destruct (fs_get fs' p) as [[c|]|] eqn:E1.
  - apply H in E1. rewrite E1. reflexivity.
  - destruct (fs_get fs p) as [[c|]|] eqn:E2; try reflexivity. apply H in E2. congruence.
  - destruct (fs_get fs p) as [[c|]|] eqn:E2; try reflexivity. apply H in E2. congruence.
Qed.

Lemma view_same st st' : s_reg st' = s_reg st -> same_files (s_fs st) (s_fs st') -> forall q, view st' q = view st q.
Proof. intros Hr Hf q. unfold view. rewrite Hr, (same_files_content _ _ q Hf). reflexivity. Qed.
Lemma Inv_same st st' : s_reg st' = s_reg st -> same_files (s_fs st) (s_fs st') -> Inv st -> Inv st'.
Proof.
  intros Hr Hf H p ns Hp. rewrite Hr in Hp. destruct (H p ns Hp) as [Hne (c & Hc)]. split; [exact Hne|]. exists c. apply Hf. exact Hc.
Qed.

(* export_and_merge on path p IS export_raw on the view of p; the views of all other paths stay *)
Lemma eam_refines st p name text st' : Inv st -> export_and_merge st p name text = (st', Ok tt) ->
  export_raw (view st p) name text = Ok (view st' p) /\ Inv st' /\ (forall q, q <> p -> view st' q = view st q).
Proof.
  intros HI H. destruct (eam_ok _ _ _ _ _ H) as [_ [(ns & Hr & Hex & ->)|(c & -> & Hc)]].
  - split; [|split; [exact HI | reflexivity]]. destruct (HI p ns Hr) as [_ (c & Hc)].
    unfold view, export_raw. rewrite Hr. cbn [f_content f_names]. unfold content_at. rewrite Hc, Hex. reflexivity.
  - assert (Hother : forall q, q <> p -> view {| s_fs := fs_set (s_fs st) p (File c); s_reg := reg_add (s_reg st) p name; s_poisoned := false |} q = view st q).
    { intros q Hq. unfold view, content_at. cbn [s_fs s_reg]. rewrite reg_get_add_other, fs_get_set_other by congruence. reflexivity. }
    assert (Hinv : p <> [] -> Inv {| s_fs := fs_set (s_fs st) p (File c); s_reg := reg_add (s_reg st) p name; s_poisoned := false |}).
    { intros Hne q ns Hq. cbn [s_fs s_reg] in *. destruct (list_str_eqb p q) eqn:E.
      - apply list_str_eqb_spec in E. subst q. split; [exact Hne|]. exists c. apply fs_get_set_same.
      - assert (p <> q) by (intros Hpq; subst q; rewrite list_str_eqb_refl in E; discriminate).
        rewrite reg_get_add_other in Hq by assumption. rewrite fs_get_set_other by assumption. exact (HI q ns Hq). }
    destruct Hc as [(Hr & -> & fs' & Hf)|(ns & old & Hr & Hex & Hl & Hm)].
    + assert (Hne : p <> []).
      { intros ->. unfold file_create in Hf. cbn [fs_lookup] in Hf. discriminate Hf. }
      split; [|split; [exact (Hinv Hne) | exact Hother]].
      unfold view at 1. rewrite Hr. unfold export_raw. cbn [f_content f_init].
      unfold view, content_at. cbn [s_fs s_reg]. rewrite reg_get_add_same, Hr, fs_get_set_same. reflexivity.
    + destruct (HI p ns Hr) as [Hne _]. split; [|split; [exact (Hinv Hne) | exact Hother]].
      rewrite (fs_lookup_nonroot _ _ Hne) in Hl.
      unfold view at 1. rewrite Hr. unfold export_raw, content_at. cbn [f_content f_names]. rewrite Hl, Hex, Hm. cbn [bind].
      unfold view, content_at. cbn [s_fs s_reg]. rewrite reg_get_add_same, Hr, fs_get_set_same. reflexivity.
Qed.

Lemma run_raw_app l1 : forall l2 s s1, run_raw s l1 = Ok s1 -> run_raw s (l1 ++ l2) = run_raw s1 l2.
Proof.
  induction l1 as [|[i t] l1 IH]; intros l2 s s1 H; cbn [run_raw app] in *; [inversion H; reflexivity|].
  destruct (export_raw s i t) as [s'|e|m]; cbn [bind] in *; try discriminate. exact (IH l2 s' s1 H).
Qed.

Section Refine.
Variable cfg : config.
Variable U : universe.
Hypothesis Hcwd : names_ok (c_cwd cfg).

(* what a type contributes: its name and its export text *)
Definition contribution (j : nat) (it : str * str) : Prop :=
  fst it = t_ident (tget U j) /\ export_to_string (c_esm cfg) (c_cwd cfg) U j (default_out_dir cfg) = Ok (snd it).

(* the step relation: the invariant is kept and every path went through a (possibly empty) sequence of export_raw steps,
   each the contribution of a type j with PT j whose target is that path *)
Definition refines (PT : nat -> apath -> Prop) (a b : state) : Prop :=
  Inv a -> Inv b /\ forall q, exists l, run_raw (view a q) l = Ok (view b q) /\ Forall (fun it => exists j, PT j q /\ contribution j it) l.

Lemma refines_refl PT a : refines PT a a.
Proof. intros H. split; [exact H|]. intros q. exists []. split; [reflexivity | constructor]. Qed.
Lemma refines_trans PT a b c : refines PT a b -> refines PT b c -> refines PT a c.
Proof.
  intros H1 H2 Ha. destruct (H1 Ha) as [Hb F1]. destruct (H2 Hb) as [Hc F2]. split; [exact Hc|]. intros q.
  destruct (F1 q) as (l1 & R1 & A1). destruct (F2 q) as (l2 & R2 & A2). exists (l1 ++ l2). split; [|apply Forall_app; split; assumption].
  rewrite (run_raw_app _ _ _ _ R1). exact R2.
Qed.
Lemma refines_same PT a b : s_reg b = s_reg a -> same_files (s_fs a) (s_fs b) -> refines PT a b.
Proof.
  intros Hr Hf Ha. split; [exact (Inv_same _ _ Hr Hf Ha)|]. intros q. exists []. split; [|constructor]. cbn [run_raw]. rewrite (view_same _ _ Hr Hf q). reflexivity.
Qed.

Lemma export_to_refines st i path st' r : ExportSM.export_to cfg U st i path = (st', r) ->
  refines (fun j q => j = i /\ target_of cfg path = Some q) st st'.
Proof.
  intros H. destruct r as [[]|e|m].
  - (* success *)
    unfold ExportSM.export_to in H. intros HI. unfold target_of.
    destruct (absolute (c_cwd cfg) path) as [cs|e|m] eqn:Ha; try (inversion H; fail).
    destruct (export_to_string _ _ _ _ _) as [buffer|e|m] eqn:Hb; try (inversion H; fail).
    set (p := names_of_abs cs) in *.
    destruct (match parent_of p with Some d => create_dir_all (s_fs st) d | None => Ok (s_fs st) end) as [fs1|e|m] eqn:Ed; try (inversion H; fail).
    assert (Hsf : same_files (s_fs st) fs1) by (destruct (parent_of p); [exact (create_dirs_files _ _ _ _ Ed) | inversion Ed; apply same_files_refl]).
    set (st1 := {| s_fs := fs1; s_reg := s_reg st; s_poisoned := s_poisoned st |}) in *.
    assert (HI1 : Inv st1) by (apply (Inv_same st st1 eq_refl Hsf HI)).
    destruct (eam_refines _ _ _ _ _ HI1 H) as (R & HI' & Hoth). split; [exact HI'|]. intros q.
    destruct (list_str_eqb q p) eqn:E.
    + apply list_str_eqb_spec in E. subst q. exists [(t_ident (tget U i), buffer)]. split.
      * cbn [run_raw]. rewrite <- (view_same st st1 eq_refl Hsf p). rewrite R. reflexivity.
      * constructor; [|constructor]. exists i. split; [split; reflexivity|]. split; [reflexivity | exact Hb].
    + assert (q <> p) by (intros Hq; subst q; rewrite list_str_eqb_refl in E; discriminate).
      exists []. split; [|constructor]. cbn [run_raw]. rewrite (Hoth q H0), (view_same st st1 eq_refl Hsf q). reflexivity.
  - destruct (export_to_err cfg U _ _ _ _ _ H) as (Hr & _ & Hf). exact (refines_same _ _ _ Hr Hf).
  - (* a panic: the registry and the files are as before or as after the directories were created *)
    unfold ExportSM.export_to in H.
    destruct (absolute (c_cwd cfg) path) as [cs|e|m0]; try (inversion H; subst; apply refines_refl).
    destruct (export_to_string _ _ _ _ _) as [buffer|e|m0]; try (inversion H; subst; apply refines_refl).
    destruct (match parent_of (names_of_abs cs) with Some d => create_dir_all (s_fs st) d | None => Ok (s_fs st) end) as [fs1|e|m0] eqn:Ed; try (inversion H; subst; apply refines_refl).
    assert (Hsf : same_files (s_fs st) fs1) by (destruct (parent_of (names_of_abs cs)); [exact (create_dirs_files _ _ _ _ Ed) | inversion Ed; apply same_files_refl]).
    destruct (eam_panic _ _ _ _ _ _ H) as [Hf Hr]. cbn [s_fs s_reg] in *. apply refines_same; [exact Hr | rewrite Hf; exact Hsf].
Qed.

Lemma export_into_refines st i dir st' r : ExportSM.export_into cfg U st i dir = (st', r) ->
  refines (fun j q => j = i /\ target cfg U j dir = Some q) st st'.
Proof.
  intros H. destruct (t_out (tget U i)) as [op|] eqn:Ho; [|rewrite (export_into_not_exportable cfg U st i dir Ho) in H; inversion H; subst; apply refines_refl].
  destruct (absolute (c_cwd cfg) (path_join dir op)) as [cs|e|m] eqn:Ha.
  - destruct (export_into_unfold cfg U Hcwd st i dir op cs Ho Ha) as [E1 E2]. rewrite E1 in H.
    pose proof (export_to_refines _ _ _ _ _ H) as G. intros HI. destruct (G HI) as [HI' F]. split; [exact HI'|]. intros q.
    destruct (F q) as (l & R & A). exists l. split; [exact R|]. revert A. apply Forall_impl. intros it (j & [-> Ht] & Hc). exists i. rewrite <- E2. auto.
  - unfold ExportSM.export_into in H. rewrite Ho, Ha in H. inversion H; subst. apply refines_refl.
  - unfold ExportSM.export_into in H. rewrite Ho, Ha in H. inversion H; subst. apply refines_refl.
Qed.

(* the target of an op: the types it may export and where *)
Definition op_targets (o : op) (j : nat) (q : apath) : Prop :=
  match o with
  | Export i => j = i /\ target cfg U j (default_out_dir cfg) = Some q
  | ExportAll i => reach U i j /\ target cfg U j (default_out_dir cfg) = Some q
  | ExportAllTo i dir => reach U i j /\ target cfg U j dir = Some q
  | _ => False
  end.

Lemma export_all_refines st i dir st' r : export_all_into cfg U st i dir = (st', r) ->
  refines (fun j q => reach U i j /\ target cfg U j dir = Some q) st st'.
Proof.
  unfold export_all_into. destruct (ExportSM.export_recursive cfg U (S (length U)) st [] i dir) as [[s sn] r0] eqn:E.
  intros H. inversion H; subst s r0. clear H.
  apply (walk_rel cfg U (refines (fun j q => reach U i j /\ target cfg U j dir = Some q)) (reach U i) dir) with (fuel := S (length U)) (seen := []) (i := i) (seen' := sn) (r := r);
    [apply refines_refl | apply refines_trans | | | apply reach_root | exact E].
  - intros j k Hj Hk Hok. exact (reach_step U i j k Hj Hk Hok).
  - intros s0 j s1 r1 Hj Ej. pose proof (export_into_refines _ _ _ _ _ Ej) as G. intros HI. destruct (G HI) as [HI' F]. split; [exact HI'|].
    intros q. destruct (F q) as (l & R & A). exists l. split; [exact R|]. revert A. apply Forall_impl. intros it (j' & [-> Ht] & Hc). exists j. auto.
Qed.

Lemma step_refines st o st' r : is_export o = true -> ExportSM.step cfg U st o = (st', r) -> refines (op_targets o) st st'.
Proof.
  intros Ho H. destruct o as [i|i|i dir| |p|p c|p]; try discriminate Ho.
  - rewrite (export_is_export_into cfg U Hcwd) in H. exact (export_into_refines _ _ _ _ _ H).
  - exact (export_all_refines _ _ _ _ _ H).
  - exact (export_all_refines _ _ _ _ _ H).
Qed.

(* a whole history of exports: every path of the final state is the result of a sequence of single-file exports (C05's
   export_raw), each the contribution of a type some op of the history exports to that path *)
Theorem run_refines : forall h st st' rs, forallb is_export h = true -> run cfg U st h = (st', rs) ->
  refines (fun j q => exists o, In o h /\ op_targets o j q) st st'.
Proof.
  induction h as [|o h IH]; intros st st' rs Hh H; cbn [run] in H; [inversion H; subst; apply refines_refl|].
  cbn [forallb] in Hh. apply andb_true_iff in Hh as [Ho Hh].
  destruct (ExportSM.step cfg U st o) as [st1 r1] eqn:E1. destruct (run cfg U st1 h) as [st2 rs2] eqn:E2. inversion H; subst.
  apply (refines_trans _ st st1 st').
  - pose proof (step_refines _ _ _ _ Ho E1) as G. intros HI. destruct (G HI) as [HI' F]. split; [exact HI'|]. intros q.
    destruct (F q) as (l & R & A). exists l. split; [exact R|]. revert A. apply Forall_impl. intros it (j & Hj & Hc). exists j. split; [|exact Hc].
    exists o. split; [left; reflexivity | exact Hj].
  - pose proof (IH _ _ _ Hh E2) as G. intros HI. destruct (G HI) as [HI' F]. split; [exact HI'|]. intros q.
    destruct (F q) as (l & R & A). exists l. split; [exact R|]. revert A. apply Forall_impl. intros it (j & (o' & Ho' & Hj) & Hc). exists j. split; [|exact Hc].
    exists o'. split; [right; exact Ho' | exact Hj].
Qed.
End Refine.

(* ---- with C05: the final content of every file is the canonical file of what was exported to it ---------- *)
From TsRs Require Import Proofs.Gen_base_proofs Proofs.Merge_history_proofs.

Lemma run_raw_items items : forall s, run_raw s (map (fun i => (it_ident i, item_text i)) items) = run_history s items.
Proof. induction items as [|i r IH]; intros s; cbn [map run_raw run_history]; [reflexivity|]. unfold export_item. destruct (export_raw s (it_ident i) (item_text i)); cbn [bind]; [apply IH | reflexivity | reflexivity]. Qed.

(* the text of an export is the text of an item: notice, import groups, the declaration block *)
Lemma export_text_is_item esm cwd U i dir s : export_to_string esm cwd U i dir = Ok s ->
  exists m, s = item_text {| it_ident := t_ident (tget U i); it_imports := m; it_block := t_decl (tget U i) |}.
Proof.
  unfold export_to_string. intros H. apply bind_ok in H as (imports & Hi & H). inversion H; subst s. clear H.
  unfold generate_imports in Hi. destruct (t_out (tget U (t_wg (tget U i)))); [|discriminate].
  apply bind_ok in Hi as (m & _ & Hi). inversion Hi; subst imports. exists m.
  unfold item_text, render_file, render_body. cbn [it_imports it_block map concat]. rewrite app_nil_r, <- !app_assoc. reflexivity.
Qed.

Section Canonical.
Variable cfg : config.
Variable U : universe.
Hypothesis Hcwd : names_ok (c_cwd cfg).

Theorem final_files_canonical h fs st' rs : forallb is_export h = true -> run cfg U (init_state fs) h = (st', rs) ->
  forall q, exists l,
    run_raw f_init l = Ok (view st' q) /\
    Forall (fun it => exists j, (exists o, In o h /\ op_targets cfg U o j q) /\ contribution cfg U j it) l /\
    (forall items, l = map (fun i => (it_ident i, item_text i)) items -> items <> [] -> good_history items ->
       content_at (s_fs st') q = Some (canonical_file items)).
Proof.
  intros Hh H q. destruct (run_refines cfg U Hcwd h _ _ _ Hh H (Inv_init fs)) as [_ F]. destruct (F q) as (l & R & A).
  assert (Hv : view (init_state fs) q = f_init) by reflexivity. rewrite Hv in R.
  exists l. split; [exact R|]. split; [exact A|]. intros items -> Hne Hg.
  rewrite run_raw_items in R. pose proof (file_after_canonical items Hne Hg) as Hc. unfold file_after in Hc. rewrite R in Hc. cbn [omap] in Hc.
  injection Hc as Hc'. unfold view in Hc'. destruct (reg_get (s_reg st') q); cbn [f_content f_init] in Hc'; [exact Hc' | discriminate Hc'].
Qed.
End Canonical.

(* ---- the fuel of the walk is enough: the seen-set strictly grows ---------------------------------------- *)
Local Open Scope nat_scope.
Section Fuel.
Variable cfg : config.
Variable U : universe.
Notation export_recursive := (ExportSM.export_recursive cfg U).

Lemma filter_length_le {A} (p q : A -> bool) l : (forall x, In x l -> q x = true -> p x = true) -> length (filter q l) <= length (filter p l).
Proof.
  induction l as [|x l IH]; intros H; [apply le_n|]. cbn [filter].
  assert (IH' := IH (fun y Hy => H y (or_intror Hy))). destruct (q x) eqn:Eq.
  - rewrite (H x (or_introl eq_refl) Eq). cbn [length]. lia.
  - destruct (p x); cbn [length]; lia.
Qed.
Lemma filter_length_lt {A} (p q : A -> bool) l x : (forall y, In y l -> q y = true -> p y = true) -> In x l -> p x = true -> q x = false ->
  length (filter q l) < length (filter p l).
Proof.
  induction l as [|y l IH]; intros H Hin Hp Hq; [contradiction|]. cbn [filter]. destruct Hin as [->|Hin].
  - rewrite Hp, Hq. cbn [length]. pose proof (filter_length_le p q l (fun z Hz => H z (or_intror Hz))). lia.
  - assert (IH' := IH (fun z Hz => H z (or_intror Hz)) Hin Hp Hq). destruct (q y) eqn:Eq.
    + rewrite (H y (or_introl eq_refl) Eq). cbn [length]. lia.
    + destruct (p y); cbn [length]; lia.
Qed.

Definition unseen (seen : list nat) : nat := length (filter (fun k => negb (existsb (Nat.eqb k) seen)) (seq 0 (length U))).

Lemma existsb_eqb_in k l : existsb (Nat.eqb k) l = true <-> In k l.
Proof.
  rewrite existsb_exists. split; [intros (x & Hx & He); apply PeanoNat.Nat.eqb_eq in He; subst; exact Hx | intros H; exists k; split; [exact H | apply PeanoNat.Nat.eqb_refl]].
Qed.
Lemma unseen_mono s s' : incl s s' -> unseen s' <= unseen s.
Proof.
  intros H. apply filter_length_le. intros x _ Hx. apply negb_true_iff in Hx. apply negb_true_iff.
  destruct (existsb (Nat.eqb x) s) eqn:E; [|reflexivity]. apply existsb_eqb_in in E. apply H in E. apply existsb_eqb_in in E. congruence.
Qed.
Lemma unseen_cons i s : i < length U -> ~ In i s -> unseen (i :: s) < unseen s.
Proof.
  intros Hi Hn. apply (filter_length_lt _ _ _ i).
  - intros y _ Hy. apply negb_true_iff in Hy. apply negb_true_iff. cbn [existsb] in Hy. apply orb_false_iff in Hy as [_ Hy]. exact Hy.
  - apply in_seq. lia.
  - apply negb_true_iff. destruct (existsb (Nat.eqb i) s) eqn:E; [|reflexivity]. apply existsb_eqb_in in E. contradiction.
  - apply negb_false_iff. cbn [existsb]. rewrite PeanoNat.Nat.eqb_refl. reflexivity.
Qed.

Lemma exportable_in_range i : t_out (tget U i) <> None -> i < length U.
Proof.
  intros H. destruct (PeanoNat.Nat.lt_ge_cases i (length U)) as [Hl|Hg]; [exact Hl|]. unfold tget in H. rewrite nth_overflow in H by exact Hg. contradiction H; reflexivity.
Qed.

Lemma walk_seen_mono dir : forall fuel st seen i st' seen' r, export_recursive fuel st seen i dir = (st', seen', r) -> incl seen seen'.
Proof.
  induction fuel as [|f IH]; intros st seen i st' seen' r H; [inversion H; apply incl_refl|].
  rewrite export_recursive_S in H. destruct (existsb (Nat.eqb i) seen); [inversion H; apply incl_refl|].
  destruct (ExportSM.export_into cfg U st i dir) as [st1 r1].
  assert (Hfold : forall l acc, fold_left (walk_step cfg U f dir) l acc = (st', seen', r) -> incl (snd (fst acc)) seen').
  { induction l as [|d l IHl]; intros acc Hf; cbn [fold_left] in Hf; [rewrite Hf; apply incl_refl|].
    eapply incl_tran; [|exact (IHl _ Hf)]. destruct acc as [[s sn] r0]. cbn [walk_step fst snd]. destruct r0 as [u|e|m]; try apply incl_refl.
    destruct (t_out (tget U d)); [|apply incl_refl]. destruct (export_recursive f s sn d dir) as [[s2 sn2] r2] eqn:E2. exact (IH _ _ _ _ _ _ E2). }
  destruct r1 as [[]|e|m]; try (inversion H; subst; apply incl_tl, incl_refl).
  intros x Hx. apply (Hfold _ _ H). right. exact Hx.
Qed.

(* with more unseen-node budget than nodes left, the amount of fuel cannot be observed *)
Lemma walk_fuel_irrelevant dir : forall f1 f2 st seen i, unseen seen < f1 -> unseen seen < f2 ->
  export_recursive f1 st seen i dir = export_recursive f2 st seen i dir.
Proof.
  induction f1 as [|f1 IH]; intros f2 st seen i H1 H2; [lia|]. destruct f2 as [|f2]; [lia|].
  rewrite !export_recursive_S. destruct (existsb (Nat.eqb i) seen) eqn:Ex; [reflexivity|].
  destruct (ExportSM.export_into cfg U st i dir) as [st1 r1] eqn:E. destruct r1 as [[]|e|m]; try reflexivity.
  assert (Hi : i < length U).
  { apply exportable_in_range. intros Hn. rewrite (export_into_not_exportable cfg U st i dir Hn) in E. inversion E. }
  assert (Hni : ~ In i seen) by (intros Hin; apply existsb_eqb_in in Hin; congruence).
  pose proof (unseen_cons i seen Hi Hni) as Hlt.
  assert (Hfold : forall l acc, unseen (snd (fst acc)) < f1 -> unseen (snd (fst acc)) < f2 ->
            fold_left (walk_step cfg U f1 dir) l acc = fold_left (walk_step cfg U f2 dir) l acc).
  { induction l as [|d l IHl]; intros acc A1 A2; [reflexivity|]. cbn [fold_left].
    assert (Hs : walk_step cfg U f1 dir acc d = walk_step cfg U f2 dir acc d).
    { destruct acc as [[s sn] r0]. cbn [walk_step fst snd] in *. destruct r0; try reflexivity. destruct (t_out (tget U d)); [|reflexivity]. exact (IH f2 s sn d A1 A2). }
    rewrite <- Hs. apply IHl; destruct acc as [[s sn] r0]; cbn [walk_step fst snd] in *; destruct r0; try assumption;
      destruct (t_out (tget U d)); try assumption;
      destruct (export_recursive f1 s sn d dir) as [[s2 sn2] r2] eqn:E2; cbn [fst snd];
      pose proof (unseen_mono _ _ (walk_seen_mono dir _ _ _ _ _ _ _ E2)); lia. }
  apply Hfold; cbn [fst snd]; lia.
Qed.

(* the model's fuel |U| + 1 is enough: any larger amount gives the same result, so the walk never stops for lack of fuel *)
Theorem fuel_is_enough st i dir k :
  export_recursive (S (length U) + k) st [] i dir = export_recursive (S (length U)) st [] i dir.
Proof.
  assert (Hu : unseen [] <= length U).
  { unfold unseen. etransitivity; [apply (filter_length_le (fun _ => true)); reflexivity|].
    assert (G : forall (l : list nat), length (filter (fun _ => true) l) = length l) by (induction l as [|x l IHl]; cbn [filter length]; [reflexivity | rewrite IHl; reflexivity]).
    rewrite G, seq_length. apply le_n. }
  apply walk_fuel_irrelevant; lia.
Qed.
End Fuel.

(* ---- obstacles and their removal: events of the environment that stay clear of recorded files --------------- *)
Section Obstacles.
Variable cfg : config.
Variable U : universe.
Hypothesis Hcwd : names_ok (c_cwd cfg).

(* an event at or above no recorded path *)
Definition clear_of_records (st : state) (o : op) : Prop :=
  match o with
  | MkDir p | MkFile p _ | Remove p => forall q ns, reg_get (s_reg st) q = Some ns -> is_prefix_path p q = false
  | _ => True
  end.

Lemma is_prefix_refl p : is_prefix_path p p = true.
Proof. unfold is_prefix_path. induction p as [|x p IH]; cbn [is_prefix_of]; [reflexivity | rewrite str_eqb_refl, IH; reflexivity]. Qed.

Lemma fs_get_filter fs (f : apath -> bool) q : f q = true -> fs_get (filter (fun e => f (fst e)) fs) q = fs_get fs q.
Proof.
  intros Hq. induction fs as [|[k n] r IH]; [reflexivity|]. cbn [filter fst]. destruct (f k) eqn:Ek; cbn [fs_get].
  - rewrite IH. reflexivity.
  - destruct (list_str_eqb q k) eqn:E; [apply list_str_eqb_spec in E; subst k; congruence | exact IH].
Qed.

Lemma env_op_views st o st' r : (match o with MkDir _ | MkFile _ _ | Remove _ => True | _ => False end) -> clear_of_records st o ->
  ExportSM.step cfg U st o = (st', r) ->
  s_reg st' = s_reg st /\ (Inv st -> Inv st') /\ forall q, view st' q = view st q.
Proof.
  intros Hk Hc H. destruct o as [i|i|i dir| |p|p c|p]; try contradiction; cbn [ExportSM.step] in H; inversion H; subst; clear H; cbn [s_reg s_fs clear_of_records] in *.
  - split; [reflexivity|]. split.
    + intros HI q ns Hq. cbn [s_reg s_fs] in *. destruct (HI q ns Hq) as [Hne (c & Hf)]. split; [exact Hne|]. exists c. rewrite fs_get_set_other; [exact Hf|].
      intros ->. pose proof (Hc q ns Hq) as Hp. rewrite is_prefix_refl in Hp. discriminate.
    + intros q. unfold view, content_at. cbn [s_reg s_fs]. destruct (reg_get (s_reg st) q) as [ns|] eqn:Hq; [|reflexivity].
      rewrite fs_get_set_other; [reflexivity|]. intros ->. pose proof (Hc q ns Hq) as Hp. rewrite is_prefix_refl in Hp. discriminate.
  - split; [reflexivity|]. split.
    + intros HI q ns Hq. cbn [s_reg s_fs] in *. destruct (HI q ns Hq) as [Hne (c0 & Hf)]. split; [exact Hne|]. exists c0. rewrite fs_get_set_other; [exact Hf|].
      intros ->. pose proof (Hc q ns Hq) as Hp. rewrite is_prefix_refl in Hp. discriminate.
    + intros q. unfold view, content_at. cbn [s_reg s_fs]. destruct (reg_get (s_reg st) q) as [ns|] eqn:Hq; [|reflexivity].
      rewrite fs_get_set_other; [reflexivity|]. intros ->. pose proof (Hc q ns Hq) as Hp. rewrite is_prefix_refl in Hp. discriminate.
  - split; [reflexivity|]. split.
    + intros HI q ns Hq. cbn [s_reg s_fs] in *. destruct (HI q ns Hq) as [Hne (c & Hf)]. split; [exact Hne|]. exists c.
      rewrite (fs_get_filter _ (fun k => negb (is_prefix_path p k))); [exact Hf | rewrite (Hc q ns Hq); reflexivity].
    + intros q. unfold view, content_at. cbn [s_reg s_fs]. destruct (reg_get (s_reg st) q) as [ns|] eqn:Hq; [|reflexivity].
      rewrite (fs_get_filter _ (fun k => negb (is_prefix_path p k))); [reflexivity | rewrite (Hc q ns Hq); reflexivity].
Qed.

(* histories of exports interleaved with such events *)
Fixpoint clear_history (st : state) (h : list op) : Prop :=
  match h with
  | [] => True
  | o :: r => (is_export o = true \/ (match o with MkDir _ | MkFile _ _ | Remove _ => True | _ => False end /\ clear_of_records st o)) /\
              clear_history (fst (ExportSM.step cfg U st o)) r
  end.

Theorem run_refines_with_obstacles : forall h st st' rs, clear_history st h -> run cfg U st h = (st', rs) ->
  refines cfg U (fun j q => exists o, In o h /\ op_targets cfg U o j q) st st'.
Proof.
  induction h as [|o h IH]; intros st st' rs Hh H; cbn [run] in H; [inversion H; subst; apply refines_refl|].
  destruct Hh as [Ho Hh]. destruct (ExportSM.step cfg U st o) as [st1 r1] eqn:E1. cbn [fst] in Hh. destruct (run cfg U st1 h) as [st2 rs2] eqn:E2. inversion H; subst.
  apply (refines_trans cfg U _ st st1 st').
  - destruct Ho as [Ho|[Hk Hc]].
    + pose proof (step_refines cfg U Hcwd _ _ _ _ Ho E1) as G. intros HI. destruct (G HI) as [HI' F]. split; [exact HI'|]. intros q.
      destruct (F q) as (l & R & A). exists l. split; [exact R|]. revert A. apply Forall_impl. intros it (j & Hj & Hcn). exists j. split; [|exact Hcn].
      exists o. split; [left; reflexivity | exact Hj].
    + destruct (env_op_views _ _ _ _ Hk Hc E1) as (_ & HIp & Hv). intros HI. split; [exact (HIp HI)|]. intros q. exists []. split; [|constructor].
      cbn [run_raw]. rewrite (Hv q). reflexivity.
  - pose proof (IH _ _ _ Hh E2) as G. intros HI. destruct (G HI) as [HI' F]. split; [exact HI'|]. intros q.
    destruct (F q) as (l & R & A). exists l. split; [exact R|]. revert A. apply Forall_impl. intros it (j & (o' & Ho' & Hj) & Hcn). exists j. split; [|exact Hcn].
    exists o'. split; [right; exact Ho' | exact Hj].
Qed.

(* a failed T::export() contributes nothing to any file *)
Theorem failed_export_views st i st' e : ExportSM.step cfg U st (Export i) = (st', Err e) -> forall q, view st' q = view st q.
Proof. intros H. destruct (export_failed_frame cfg U Hcwd _ _ _ _ H) as (Hr & _ & Hf). exact (view_same _ _ Hr Hf). Qed.
End Obstacles.

(* the first successful export of a type to a path in a process writes exactly its export text there, whatever happened
   before (failed attempts, obstacles placed and removed, stale content) *)
Section FirstTouch.
Variable cfg : config.
Variable U : universe.

Theorem export_to_first_touch st i path p st' : target_of cfg path = Some p -> reg_get (s_reg st) p = None ->
  ExportSM.export_to cfg U st i path = (st', Ok tt) ->
  exists buffer, export_to_string (c_esm cfg) (c_cwd cfg) U i (default_out_dir cfg) = Ok buffer /\
                 fs_get (s_fs st') p = Some (File buffer) /\ reg_get (s_reg st') p = Some [t_ident (tget U i)].
Proof.
  unfold target_of, ExportSM.export_to. intros Ht Hr H.
  destruct (absolute (c_cwd cfg) path) as [cs|e|m]; try discriminate Ht. inversion Ht; subst p. clear Ht.
  destruct (export_to_string _ _ _ _ _) as [buffer|e|m]; try (inversion H; fail).
  destruct (match parent_of (names_of_abs cs) with Some d => create_dir_all (s_fs st) d | None => Ok (s_fs st) end) as [fs1|e|m]; try (inversion H; fail).
  exists buffer. split; [reflexivity|]. exact (first_touch_truncates {| s_fs := fs1; s_reg := s_reg st; s_poisoned := s_poisoned st |} _ _ _ _ Hr H).
Qed.
End FirstTouch.
