(* The string-level `merge` of Model/Merge.v (a transcription of the Rust code) computes, on
   well-formed texts, exactly the structured merge of Model/MergeSpec.v.

   History: with the first version of `name_char` (whitespace and `,` excluded only) the name `}`
   was well-formed; as the last of at least two names it makes the rendered list end in `, } }`,
   `trim_end_matches(" }")` strips twice, and parse_render_import, header_split, merge_bridge and
   merge_into_file_bridge were false (e = ("./p", ["A"; "}"]) parses to ("./p", ["A,"])).
   `name_char` now also excludes `}`, so `wf_group e` implies `brace_ok e` (wf_group_brace_ok).
   The `_corrected` lemmas carry `brace_ok` as an explicit hypothesis (exactly: not (>= 2 names
   and the last one is `}`)); the four original statements are their corollaries. *)
From TsRs Require Import Base.Str Base.Outcome Gen.Tables Model.Merge Model.MergeSpec.

(* facts about the regenerated constants (by computation) *)
Lemma NOTE_shape : exists line, NOTE = line ++ [nl] /\ ~ In nl line /\ line <> [].
Proof.
  exists (removelast NOTE). split; [|split].
  - vm_compute. reflexivity.
  - apply memb_false_notin. vm_compute. reflexivity.
  - vm_compute. discriminate.
Qed.

Lemma NOTE_ascii : utf8_size NOTE = N.of_nat NOTE_len.
Proof. apply utf8_size_ascii. vm_compute. reflexivity. Qed.

(* ---- the literal pieces of an import line ------------------------------------------------- *)
Definition s_from_tl : str := lit "from ".
Lemma s_from_eq : s_from = 32 :: s_from_tl.                      Proof. reflexivity. Qed.
Lemma s_from_tl_eq : s_from_tl = lit "from" ++ [32].             Proof. reflexivity. Qed.
Lemma s_import_close_eq : s_import_close = [32; 125].            Proof. reflexivity. Qed.
Lemma s_comma_sp_eq : s_comma_sp = [44; 32].                     Proof. reflexivity. Qed.
Lemma s_import_open_eq :
  s_import_open = lit "import" ++ 32 :: lit "type" ++ 32 :: lit "{" ++ [32].
Proof. reflexivity. Qed.
Lemma s_import_open_eq2 : s_import_open = lit "import" ++ 32 :: lit "type { ".
Proof. reflexivity. Qed.

(* the line without its final newline *)
Definition import_line (e : str * list str) : str :=
  s_import_open ++ join s_comma_sp (snd e) ++ s_import_close ++ s_from ++
  [quote] ++ fst e ++ [quote] ++ [semicolon].

Lemma render_import_line e : render_import e = import_line e ++ [nl].
Proof.
  unfold render_import, import_line.
  change (lit " } from """) with (s_import_close ++ s_from ++ [quote]).
  change (lit """;") with ([quote] ++ [semicolon]).
  rewrite <- !app_assoc. reflexivity.
Qed.

Lemma removelast_render_import e : removelast (render_import e) = import_line e.
Proof. rewrite render_import_line. apply removelast_last. Qed.

(* ---- what the well-formedness predicates give --------------------------------------------- *)
Lemma wf_name_facts n :
  wf_name n = true ->
  n <> [] /\ n <> lit "from" /\
  (forall c, In c n -> is_whitespace c = false /\ c <> 44 /\ c <> 125).
Proof.
  unfold wf_name. rewrite !andb_true_iff, !negb_true_iff. intros [[H1 H2] H3].
  split; [|split].
  - intros ->. discriminate H1.
  - intros ->. discriminate H3.
  - intros c Hc. rewrite forallb_forall in H2. specialize (H2 c Hc). unfold name_char in H2.
    rewrite !andb_true_iff, !negb_true_iff in H2. destruct H2 as [[Hw Hk] Hb].
    split; [exact Hw|]. split; apply N.eqb_neq; assumption.
Qed.

Lemma wf_name_no_sp n : wf_name n = true -> ~ In 32 n.
Proof. intros H Hin. apply wf_name_facts in H. destruct H as [_ [_ H]]. destruct (H _ Hin) as [Hw _]. discriminate Hw. Qed.
Lemma wf_name_no_comma n : wf_name n = true -> ~ In 44 n.
Proof. intros H Hin. apply wf_name_facts in H. destruct H as [_ [_ H]]. destruct (H _ Hin) as [_ [Hk _]]. congruence. Qed.
Lemma wf_name_no_brace n : wf_name n = true -> ~ In 125 n.
Proof. intros H Hin. apply wf_name_facts in H. destruct H as [_ [_ H]]. destruct (H _ Hin) as [_ [_ Hk]]. congruence. Qed.
Lemma wf_name_no_nl n : wf_name n = true -> ~ In nl n.
Proof. intros H Hin. apply wf_name_facts in H. destruct H as [_ [_ H]]. destruct (H _ Hin) as [Hw _]. discriminate Hw. Qed.
Lemma wf_name_nonempty n : wf_name n = true -> n <> [].
Proof. intros H. apply wf_name_facts in H. tauto. Qed.
Lemma wf_name_not_from n : wf_name n = true -> n <> lit "from".
Proof. intros H. apply wf_name_facts in H. tauto. Qed.

Lemma wf_path_facts p :
  wf_path p = true ->
  p <> [] /\ (forall c, In c p -> c <> quote /\ c <> semicolon /\ c <> nl /\ c <> cr).
Proof.
  unfold wf_path. rewrite andb_true_iff, negb_true_iff. intros [H1 H2]. split.
  - intros ->. discriminate H1.
  - intros c Hc. rewrite forallb_forall in H2. specialize (H2 c Hc). unfold path_char in H2.
    rewrite !andb_true_iff, !negb_true_iff, !N.eqb_neq in H2. tauto.
Qed.

Lemma wf_group_facts e :
  wf_group e = true -> wf_path (fst e) = true /\ snd e <> [] /\ (forall n, In n (snd e) -> wf_name n = true).
Proof.
  unfold wf_group. rewrite !andb_true_iff, negb_true_iff. intros [[H1 H2] H3]. split; [exact H1|]. split.
  - intros E. rewrite E in H2. discriminate H2.
  - apply forallb_forall. exact H3.
Qed.

(* ---- the defect class the predicates do not exclude: `}` as the last of several names ------ *)
Definition last_brace (names : list str) : bool :=
  (2 <=? length names)%nat && str_eqb (last names []) (lit "}").
Definition brace_ok (e : str * list str) : bool := negb (last_brace (snd e)).
(* a sufficient condition that is stable under taking unions of name sets *)
Definition no_brace_name (e : str * list str) : bool :=
  forallb (fun n => negb (str_eqb n (lit "}"))) (snd e).

Lemma no_brace_name_ok e : no_brace_name e = true -> brace_ok e = true.
Proof.
  unfold no_brace_name, brace_ok, last_brace. intros H.
  destruct (snd e) as [|x l] eqn:E; [reflexivity|].
  assert (Hin : In (last (x :: l) []) (x :: l)).
  { destruct (@exists_last _ (x :: l)) as [l' [z Hz]]; [discriminate|]. rewrite Hz, last_last.
    apply in_or_app. right. left. reflexivity. }
  rewrite forallb_forall in H. specialize (H _ Hin). rewrite negb_true_iff in H. rewrite H.
  rewrite andb_false_r. reflexivity.
Qed.

Lemma wf_group_no_brace_name e : wf_group e = true -> no_brace_name e = true.
Proof.
  intros H. apply wf_group_facts in H. destruct H as [_ [_ Hn]].
  unfold no_brace_name. apply forallb_forall. intros n Hin. apply negb_true_iff.
  destruct (str_eqb_spec n (lit "}")) as [->|]; [exfalso|reflexivity].
  apply (wf_name_no_brace _ (Hn _ Hin)). left. reflexivity.
Qed.

Lemma wf_group_brace_ok e : wf_group e = true -> brace_ok e = true.
Proof. intros H. apply no_brace_name_ok, wf_group_no_brace_name. exact H. Qed.

Lemma wf_groups_brace_ok im : forallb wf_group im = true -> forallb brace_ok im = true.
Proof.
  rewrite !forallb_forall. intros H e He. apply wf_group_brace_ok, H. exact He.
Qed.

(* ---- shape of the joined name list -------------------------------------------------------- *)
Lemma names_head n r :
  exists d r', (d = 32 /\ r' = [125] \/ d = 44) /\
               join s_comma_sp (n :: r) ++ s_import_close = n ++ d :: r'.
Proof.
  destruct r as [|n2 r].
  - exists 32, [125]. split; [left; auto|]. reflexivity.
  - exists 44, (32 :: join s_comma_sp (n2 :: r) ++ s_import_close). split; [right; reflexivity|].
    rewrite join_cons2, s_comma_sp_eq, <- !app_assoc. reflexivity.
Qed.

Lemma not_In_lit_from_32 : ~ In 32 (lit "from").   Proof. apply memb_false_notin. reflexivity. Qed.
Lemma not_In_lit_from_44 : ~ In 44 (lit "from").   Proof. apply memb_false_notin. reflexivity. Qed.
Lemma not_In_lit_import_32 : ~ In 32 (lit "import"). Proof. apply memb_false_notin. reflexivity. Qed.
Lemma not_In_lit_import_44 : ~ In 44 (lit "import"). Proof. apply memb_false_notin. reflexivity. Qed.

(* after a space, a well-formed name followed by `,` or ` }` is never `from ` *)
Lemma from_tl_not_at_name n d r :
  wf_name n = true -> (d = 32 \/ d = 44) ->
  starts_with s_from_tl (n ++ d :: r) = false.
Proof.
  intros Hn Hd. destruct (starts_with s_from_tl (n ++ d :: r)) eqn:E; [exfalso|reflexivity].
  rewrite s_from_tl_eq in E.
  apply starts_with_token in E.
  - destruct E as [E _]. apply (wf_name_not_from n Hn). symmetry. exact E.
  - apply wf_name_no_sp. exact Hn.
  - exact not_In_lit_from_32.
  - destruct Hd as [->| ->]; [exact not_In_lit_from_32 | exact not_In_lit_from_44].
Qed.

(* scanning the name list (entered after a space) for " from " *)
Lemma scan_names names rest :
  names <> [] -> (forall n, In n names -> wf_name n = true) ->
  split_once s_from (32 :: join s_comma_sp names ++ s_import_close ++ s_from ++ rest)
  = Some (32 :: join s_comma_sp names ++ s_import_close, rest).
Proof.
  induction names as [|n names IH]; intros Hne Hwf; [congruence|].
  assert (Hn : wf_name n = true) by (apply Hwf; left; reflexivity).
  destruct names as [|n2 names].
  - cbn [join]. rewrite s_from_eq, s_import_close_eq.
    change ([32; 125] ++ (32 :: s_from_tl) ++ rest) with (32 :: [125] ++ (32 :: s_from_tl) ++ rest).
    rewrite split_once_step by (apply from_tl_not_at_name; [exact Hn | left; reflexivity]).
    rewrite split_once_skip by (apply wf_name_no_sp; exact Hn).
    rewrite split_once_step by reflexivity.
    rewrite split_once_skip by (apply memb_false_notin; reflexivity).
    rewrite split_once_hit. reflexivity.
  - rewrite join_cons2, <- !app_assoc.
    set (X := join s_comma_sp (n2 :: names) ++ s_import_close ++ s_from ++ rest).
    change (s_comma_sp ++ X) with ([44] ++ 32 :: X).
    rewrite s_from_eq.
    rewrite split_once_step
      by (apply (from_tl_not_at_name n 44 (32 :: X)); [exact Hn | right; reflexivity]).
    rewrite split_once_skip by (apply wf_name_no_sp; exact Hn).
    rewrite split_once_skip by (apply memb_false_notin; reflexivity).
    change (32 :: s_from_tl) with s_from. subst X.
    rewrite IH; [|discriminate | intros m Hm; apply Hwf; right; exact Hm].
    unfold pre_pair. rewrite s_comma_sp_eq. cbn [app]. rewrite <- ?app_assoc. reflexivity.
Qed.
Lemma scan_open X a b :
  split_once s_from (32 :: X) = Some (32 :: a, b) ->
  split_once s_from (s_import_open ++ X) = Some (s_import_open ++ a, b).
Proof.
  intros H.
  change (s_import_open ++ X) with (lit "import" ++ 32 :: lit "type" ++ 32 :: lit "{" ++ 32 :: X).
  rewrite s_from_eq in *.
  rewrite split_once_skip by exact not_In_lit_import_32.
  rewrite split_once_step by reflexivity.
  rewrite split_once_skip by (apply memb_false_notin; reflexivity).
  rewrite split_once_step by reflexivity.
  rewrite split_once_skip by (apply memb_false_notin; reflexivity).
  unfold str, char in *. rewrite H. reflexivity.
Qed.

Lemma split_once_import_line e :
  wf_group e = true ->
  split_once s_from (import_line e) =
  Some (s_import_open ++ join s_comma_sp (snd e) ++ s_import_close,
        [quote] ++ fst e ++ [quote] ++ [semicolon]).
Proof.
  intros H. apply wf_group_facts in H. destruct H as [_ [Hne Hwf]].
  unfold import_line. apply scan_open. apply scan_names; assumption.
Qed.

Lemma s_import_open_not_at_names n r :
  wf_name n = true ->
  starts_with s_import_open (join s_comma_sp (n :: r) ++ s_import_close) = false.
Proof.
  intros Hn. destruct (names_head n r) as [d [r' [Hd ->]]].
  destruct (starts_with s_import_open (n ++ d :: r')) eqn:E; [exfalso|reflexivity].
  rewrite s_import_open_eq2 in E. apply starts_with_token in E.
  - destruct E as [_ [E1 E2]]. destruct Hd as [[-> ->]| ->].
    + vm_compute in E2. discriminate E2.
    + discriminate E1.
  - apply wf_name_no_sp. exact Hn.
  - exact not_In_lit_import_32.
  - destruct Hd as [[-> _]| ->]; [exact not_In_lit_import_32 | exact not_In_lit_import_44].
Qed.

Lemma close_not_at_end_of_names names :
  names <> [] -> (forall n, In n names -> wf_name n = true) -> last_brace names = false ->
  ends_with s_import_close (join s_comma_sp names) = false.
Proof.
  intros Hne Hwf Hb. destruct (@exists_last _ names Hne) as [init [l ->]].
  assert (Hl : wf_name l = true) by (apply Hwf; apply in_or_app; right; left; reflexivity).
  destruct init as [|y init].
  - cbn [app join].
    destruct (ends_with s_import_close l) eqn:E; [exfalso|reflexivity].
    apply ends_with_spec in E. destruct E as [r E].
    apply (wf_name_no_sp l Hl). rewrite E. apply in_or_app. right. left. reflexivity.
  - rewrite join_snoc by discriminate. rewrite s_comma_sp_eq.
    change ([44; 32] ++ l) with (44 :: 32 :: l).
    rewrite ends_with_app_notin by (apply memb_false_notin; reflexivity).
    destruct (ends_with s_import_close (32 :: l)) eqn:E; [exfalso|reflexivity].
    apply ends_with_spec in E. destruct E as [r E]. rewrite s_import_close_eq in E.
    destruct r as [|x r]; cbn [app] in E.
    + (* l = "}" *)
      injection E as E2.
      unfold last_brace in Hb. rewrite last_last, app_length in Hb. cbn [length] in Hb.
      rewrite E2 in Hb. rewrite andb_false_iff in Hb. destruct Hb as [Hb|Hb].
      * apply Nat.leb_gt in Hb. lia.
      * vm_compute in Hb. discriminate Hb.
    + injection E as E1 E2.
      apply (wf_name_no_sp l Hl). rewrite E2. apply in_or_app. right. left. reflexivity.
Qed.

(* ---- parsing what was rendered ------------------------------------------------------------ *)
(* With the first version of `name_char` the statement parse_render_import below was false:
   e = ("./p", ["A"; "}"]) satisfied wf_group, its name list renders as `A, } }`,
   trim_end_matches strips ` }` twice and the parsed names are ["A,"].  That e is no longer
   well-formed. *)
Lemma parse_import_line_spec e :
  wf_group e = true -> brace_ok e = true ->
  parse_import_line (import_line e) = Some e.
Proof.
  intros Hwf Hb. unfold parse_import_line. rewrite (split_once_import_line e Hwf).
  apply wf_group_facts in Hwf. destruct Hwf as [Hp [Hne Hnames]].
  destruct e as [path names]. cbn [fst snd] in *.
  unfold brace_ok in Hb. cbn [snd] in Hb. rewrite negb_true_iff in Hb.
  f_equal. f_equal.
  - (* the path *)
    apply wf_path_facts in Hp. destruct Hp as [Hpne Hpc].
    cbn [app]. rewrite trim_start_chars_go by reflexivity.
    destruct path as [|c path]; [congruence|].
    assert (Hc : (c =? quote) = false).
    { apply N.eqb_neq. apply (Hpc c). left. reflexivity. }
    cbn [app]. rewrite trim_start_chars_stop by exact Hc.
    change (c :: path ++ [quote; semicolon]) with ((c :: path) ++ [quote; semicolon]).
    destruct (@exists_last _ (c :: path)) as [p' [z Hz]]; [discriminate|]. rewrite Hz.
    replace ((p' ++ [z]) ++ [quote; semicolon]) with (((p' ++ [z]) ++ [quote]) ++ [semicolon])
      by (rewrite <- !app_assoc; reflexivity).
    rewrite trim_end_chars_go by reflexivity.
    rewrite trim_end_chars_go by reflexivity.
    apply trim_end_chars_stop.
    assert (Hzin : In z (c :: path)) by (rewrite Hz; apply in_or_app; right; left; reflexivity).
    destruct (Hpc z Hzin) as [Hq [Hs _]].
    apply N.eqb_neq in Hq, Hs. rewrite Hq, Hs. reflexivity.
  - (* the names *)
    destruct names as [|n r]; [congruence|].
    rewrite trim_start_matches_once.
    + rewrite trim_end_matches_once.
      * rewrite s_comma_sp_eq. apply split_join; [discriminate|].
        intros x Hx. apply wf_name_no_comma. apply Hnames. exact Hx.
      * discriminate.
      * apply close_not_at_end_of_names; assumption.
    + discriminate.
    + apply s_import_open_not_at_names. apply Hnames. left. reflexivity.
Qed.

Lemma parse_render_import_corrected e :
  wf_group e = true -> brace_ok e = true ->
  parse_import_line (removelast (render_import e)) = Some e.
Proof. intros H1 H2. rewrite removelast_render_import. apply parse_import_line_spec; assumption. Qed.

Lemma parse_render_import e :
  wf_group e = true ->
  parse_import_line (removelast (render_import e)) = Some e.
  (* removelast drops the final newline: `lines()` yields lines without it *)
Proof. intros H. apply parse_render_import_corrected; [exact H | apply wf_group_brace_ok; exact H]. Qed.

(* ... and `brace_ok` is necessary: under wf_group the original statement holds iff brace_ok *)
Lemma parse_render_import_needs_brace_ok e :
  wf_group e = true -> brace_ok e = false ->
  parse_import_line (removelast (render_import e)) <> Some e.
Proof.
  intros Hwf Hb. rewrite removelast_render_import. unfold parse_import_line.
  rewrite (split_once_import_line e Hwf).
  apply wf_group_facts in Hwf. destruct Hwf as [_ [Hne Hnames]].
  destruct e as [path names]. cbn [fst snd] in *.
  unfold brace_ok, last_brace in Hb. cbn [snd] in Hb.
  rewrite negb_false_iff, andb_true_iff in Hb. destruct Hb as [Hlen Hlast].
  apply Nat.leb_le in Hlen. apply str_eqb_eq in Hlast.
  destruct (@exists_last _ names Hne) as [init [l E]]. subst names.
  rewrite last_last in Hlast. rewrite app_length in Hlen. cbn [length] in Hlen.
  assert (Hinit : init <> []) by (intros ->; cbn [length] in Hlen; lia).
  match goal with |- Some (_, ?t) <> _ => set (T := t) end.
  intros H. injection H as _ H. subst T.
  destruct (init ++ [l]) as [|n r] eqn:En; [destruct init; discriminate En|].
  rewrite trim_start_matches_once in H;
    [| discriminate | apply s_import_open_not_at_names; apply Hnames; left; reflexivity].
  rewrite <- En in H. rewrite join_snoc in H by exact Hinit.
  replace ((join s_comma_sp init ++ s_comma_sp ++ l) ++ s_import_close)
    with ((join s_comma_sp init ++ [44]) ++ s_import_close ++ s_import_close) in H
    by (rewrite Hlast, <- !app_assoc; reflexivity).
  rewrite trim_end_matches_twice in H;
    [| discriminate | apply ends_with_app_notin; apply memb_false_notin; reflexivity].
  apply (f_equal (join s_comma_sp)) in H. rewrite join_split, join_snoc in H by exact Hinit.
  apply app_inv_head in H. rewrite Hlast in H. discriminate H.
Qed.

(* ---- import lines as lines ---------------------------------------------------------------- *)
Definition line_ok (x : str) : Prop := x <> [] /\ ~ In nl x.

Lemma import_line_ok e : wf_group e = true -> line_ok (import_line e).
Proof.
  intros H. apply wf_group_facts in H. destruct H as [Hp [_ Hnames]].
  apply wf_path_facts in Hp. destruct Hp as [_ Hpc]. split.
  - unfold import_line. intros E. apply (f_equal (@length _)) in E. rewrite app_length in E.
    vm_compute (length s_import_open) in E. cbn [length] in E. lia.
  - unfold import_line. rewrite !in_app_iff.
    intros [H|[H|[H|[H|[H|[H|[H|H]]]]]]].
    + apply (proj2 (memb_In _ _)) in H. vm_compute in H. discriminate H.
    + apply In_join in H. destruct H as [H|[x [Hx H]]].
      * apply (proj2 (memb_In _ _)) in H. vm_compute in H. discriminate H.
      * exact (wf_name_no_nl x (Hnames x Hx) H).
    + apply (proj2 (memb_In _ _)) in H. vm_compute in H. discriminate H.
    + apply (proj2 (memb_In _ _)) in H. vm_compute in H. discriminate H.
    + apply (proj2 (memb_In _ _)) in H. vm_compute in H. discriminate H.
    + destruct (Hpc _ H) as [_ [_ [Hn _]]]. congruence.
    + apply (proj2 (memb_In _ _)) in H. vm_compute in H. discriminate H.
    + apply (proj2 (memb_In _ _)) in H. vm_compute in H. discriminate H.
Qed.

Lemma strip_cr_import_line e : strip_cr (import_line e) = import_line e.
Proof. unfold import_line. rewrite !app_assoc. apply strip_cr_snoc. discriminate. Qed.

Lemma render_imports_lines im :
  render_imports im = concat (map (fun x => x ++ [nl]) (map import_line im)).
Proof.
  unfold render_imports. f_equal. rewrite map_map. apply map_ext. exact render_import_line.
Qed.

(* ---- a header: the notice line and the import lines, newline-separated --------------------- *)
Fixpoint hdr (l : str) (ls : list str) : str :=
  match ls with [] => l | x :: r => l ++ nl :: hdr x r end.

Lemma starts_nl_false x r : line_ok x -> starts_with [nl] (x ++ r) = false.
Proof.
  intros [Hne Hnl]. destruct x as [|c x]; [congruence|]. cbn [app starts_with].
  destruct (N.eqb_spec nl c) as [E|E]; [|reflexivity].
  exfalso. apply Hnl. left. symmetry. exact E.
Qed.

Lemma split_once_header l ls rest :
  line_ok l -> (forall x, In x ls -> line_ok x) ->
  split_once s_nlnl (l ++ nl :: concat (map (fun x => x ++ [nl]) ls) ++ nl :: rest)
  = Some (hdr l ls, rest).
Proof.
  revert l; induction ls as [|x ls IH]; intros l Hl Hls.
  - cbn [map concat app hdr]. change s_nlnl with (nl :: [nl]).
    rewrite split_once_skip by apply Hl.
    change (nl :: nl :: rest) with ((nl :: [nl]) ++ rest). rewrite split_once_hit.
    unfold pre_pair. rewrite app_nil_r. reflexivity.
  - cbn [map concat hdr]. rewrite <- !app_assoc. cbn [app].
    specialize (IH x (Hls x (or_introl eq_refl)) (fun y Hy => Hls y (or_intror Hy))).
    change s_nlnl with (nl :: [nl]) in *.
    rewrite split_once_skip by apply Hl.
    rewrite split_once_step by (apply starts_nl_false; apply Hls; left; reflexivity).
    unfold str, char in *. rewrite IH. reflexivity.
Qed.

Lemma split_char_hdr l ls :
  ~ In nl l -> (forall x, In x ls -> ~ In nl x) -> split_char nl (hdr l ls) = l :: ls.
Proof.
  revert l; induction ls as [|x ls IH]; intros l Hl Hls; cbn [hdr].
  - apply split_char_notin. exact Hl.
  - rewrite split_char_app by exact Hl. f_equal. apply IH.
    + apply Hls. left. reflexivity.
    + intros y Hy. apply Hls. right. exact Hy.
Qed.

Lemma tl_lines_hdr l ls :
  line_ok l -> (forall x, In x ls -> line_ok x) -> tl_lines (hdr l ls) = map strip_cr ls.
Proof.
  intros Hl Hls. unfold tl_lines.
  rewrite (lines_of_pieces (hdr l ls) (l :: ls)).
  - reflexivity.
  - apply split_char_hdr; [apply Hl | intros x Hx; apply Hls; exact Hx].
  - intros x [<-|Hx]; [apply Hl | apply Hls; exact Hx].
Qed.

Lemma parse_import_lines_rendered im :
  forallb wf_group im = true -> forallb brace_ok im = true ->
  parse_import_lines (map import_line im) = Some im.
Proof.
  induction im as [|e im IH]; [reflexivity|]. cbn [forallb map parse_import_lines].
  rewrite !andb_true_iff. intros [H1 H2] [H3 H4].
  rewrite parse_import_line_spec by assumption. rewrite IH by assumption. reflexivity.
Qed.

Lemma parse_import_lines_app a b x y :
  parse_import_lines a = Some x -> parse_import_lines b = Some y ->
  parse_import_lines (a ++ b) = Some (x ++ y).
Proof.
  revert x; induction a as [|l a IH]; intros x Ha Hb.
  - injection Ha as <-. exact Hb.
  - cbn [app parse_import_lines] in *. destruct (parse_import_line l) as [e|]; [|discriminate].
    destruct (parse_import_lines a) as [xs|]; [|discriminate]. injection Ha as <-.
    rewrite (IH xs eq_refl Hb). reflexivity.
Qed.

Lemma render_body_cons b r : render_body (b :: r) = nl :: b ++ nl :: render_body r.
Proof. unfold render_body. cbn [map concat]. rewrite <- !app_assoc. reflexivity. Qed.

Lemma render_body_nil : render_body [] = [].
Proof. reflexivity. Qed.

Lemma header_split_corrected im bs :
  forallb wf_group im = true -> forallb brace_ok im = true ->
  bs <> [] -> forallb wf_block bs = true ->
  exists header,
    split_once s_nlnl (render_file im bs) = Some (header, tl (render_body bs)) /\
    parse_import_lines (tl_lines header) = Some im.
  (* `tl (render_body bs)` is the body without its leading newline: b1 ++ "\n\n" ++ b2 .. ++ "\n" *)
Proof.
  intros Hwf Hbr Hne _. destruct NOTE_shape as [line [HN [Hnl Hline]]].
  assert (Hls : forall x, In x (map import_line im) -> line_ok x).
  { intros x Hx. apply in_map_iff in Hx. destruct Hx as [e [<- He]].
    apply import_line_ok. rewrite forallb_forall in Hwf. apply Hwf. exact He. }
  exists (hdr line (map import_line im)). split.
  - unfold render_file. rewrite HN, render_imports_lines.
    destruct bs as [|b r]; [congruence|]. rewrite render_body_cons. cbn [tl].
    rewrite <- !app_assoc. cbn [app].
    apply split_once_header; [split; assumption | exact Hls].
  - rewrite tl_lines_hdr; [| split; assumption | exact Hls].
    rewrite map_map. rewrite (map_ext _ import_line) by exact strip_cr_import_line.
    apply parse_import_lines_rendered; assumption.
Qed.

Lemma header_split im bs :
  forallb wf_group im = true -> bs <> [] -> forallb wf_block bs = true ->
  exists header,
    split_once s_nlnl (render_file im bs) = Some (header, tl (render_body bs)) /\
    parse_import_lines (tl_lines header) = Some im.
Proof.
  intros H1 H2 H3. apply header_split_corrected; try assumption. apply wf_groups_brace_ok. exact H1.
Qed.

(* ---- the declarations --------------------------------------------------------------------- *)
Lemma wf_block_facts b :
  wf_block b = true ->
  b <> [] /\ contains s_nlnl b = false /\ starts_with [nl] b = false /\
  ends_with [nl] b = false /\ decl_name b = Some (key_of b).
Proof.
  unfold wf_block. rewrite !andb_true_iff, !negb_true_iff. intros [[[[H1 H2] H3] H4] H5].
  repeat split; try assumption.
  - intros ->. discriminate H1.
  - unfold key_of. destruct (decl_name b); [reflexivity | discriminate H5].
Qed.

Lemma trim_nl_block b :
  b <> [] -> starts_with [nl] b = false -> ends_with [nl] b = false ->
  trim_chars is_nl b = b /\ trim_chars is_nl (b ++ [nl]) = b.
Proof.
  intros Hne Hs He. unfold trim_chars.
  destruct b as [|c b]; [congruence|].
  assert (Hc : is_nl c = false).
  { cbn [starts_with] in Hs. rewrite andb_true_r in Hs. unfold is_nl. rewrite N.eqb_sym. exact Hs. }
  cbn [app]. rewrite !trim_start_chars_stop by exact Hc.
  change (c :: b ++ [nl]) with ((c :: b) ++ [nl]).
  rewrite (trim_end_chars_go is_nl (c :: b) nl) by reflexivity.
  assert (E : trim_end_chars is_nl (c :: b) = c :: b).
  { destruct (@exists_last _ (c :: b)) as [b' [z Hz]]; [discriminate|]. rewrite Hz in *.
    rewrite ends_with_single_snoc in He. apply trim_end_chars_stop. unfold is_nl.
    rewrite N.eqb_sym. exact He. }
  rewrite E. split; reflexivity.
Qed.

Lemma contains_false_split_once p s : contains p s = false -> split_once p s = None.
Proof. unfold contains. destruct (split_once p s); [discriminate | reflexivity]. Qed.

Lemma body_split bs :
  bs <> [] -> forallb wf_block bs = true ->
  map (trim_chars is_nl) (split s_nlnl (tl (render_body bs))) = bs.
Proof.
  induction bs as [|b r IH]; intros Hne Hwf; [congruence|].
  cbn [forallb] in Hwf. apply andb_true_iff in Hwf. destruct Hwf as [Hb Hr].
  apply wf_block_facts in Hb. destruct Hb as [Hbne [Hc [Hs [He _]]]].
  destruct (trim_nl_block b Hbne Hs He) as [T1 T2].
  rewrite render_body_cons. cbn [tl]. destruct r as [|b2 r].
  - rewrite render_body_nil. change (b ++ [nl]) with (b ++ [nl]).
    rewrite split_none.
    + cbn [map]. rewrite T2. reflexivity.
    + apply contains_false_split_once. apply contains_double_snoc; assumption.
  - rewrite render_body_cons.
    change (b ++ nl :: nl :: b2 ++ nl :: render_body r)
      with (b ++ [nl; nl] ++ tl (nl :: b2 ++ nl :: render_body r)).
    rewrite <- (render_body_cons b2 r).
    rewrite (split_cons s_nlnl _ b (tl (render_body (b2 :: r)))).
    + cbn [map]. rewrite T1. f_equal. apply IH; [discriminate | exact Hr].
    + discriminate.
    + apply split_once_double; assumption.
Qed.

Lemma insert_loop_inserted new name bs :
  forallb wf_block bs = true -> insert_loop new name true bs = Some (render_body bs).
Proof.
  induction bs as [|b r IH]; intros Hwf; [reflexivity|].
  cbn [forallb] in Hwf. apply andb_true_iff in Hwf. destruct Hwf as [Hb Hr].
  apply wf_block_facts in Hb. destruct Hb as [_ [_ [_ [_ Hd]]]].
  cbn [insert_loop]. rewrite Hd. cbn [orb]. rewrite (IH Hr).
  rewrite render_body_cons. reflexivity.
Qed.

Lemma insert_loop_spec new bs :
  wf_block new = true -> forallb wf_block bs = true ->
  insert_loop new (key_of new) false bs = Some (render_body (insert_block new bs)).
Proof.
  intros _. induction bs as [|b r IH]; intros Hwf.
  - cbn [insert_loop insert_block]. rewrite render_body_cons, render_body_nil. reflexivity.
  - cbn [forallb] in Hwf. apply andb_true_iff in Hwf. destruct Hwf as [Hb Hr].
    pose proof (wf_block_facts b Hb) as [_ [_ [_ [_ Hd]]]].
    cbn [insert_loop insert_block]. rewrite Hd. cbn [orb].
    destruct (str_ltb (key_of b) (key_of new)).
    + rewrite (IH Hr). rewrite render_body_cons. reflexivity.
    + rewrite insert_loop_inserted by exact Hr. rewrite !render_body_cons. reflexivity.
Qed.

(* ---- C. the bridge ------------------------------------------------------------------------ *)
Lemma merge_bridge_corrected im bs i :
  forallb wf_group im = true -> forallb brace_ok im = true ->
  bs <> [] -> forallb wf_block bs = true ->
  wf_item i = true -> forallb brace_ok (it_imports i) = true ->
  merge (render_file im bs) (item_text i)
  = Ok (render_imports (norm_imports (im ++ it_imports i)) ++ render_body (insert_block (it_block i) bs)).
Proof.
  intros Him Hbr Hne Hbs Hi Hibr. unfold wf_item in Hi. apply andb_true_iff in Hi.
  destruct Hi as [Hiim Hib].
  destruct (header_split_corrected im bs Him Hbr Hne Hbs) as [h1 [S1 P1]].
  assert (Hbs2 : forallb wf_block [it_block i] = true) by (cbn [forallb]; rewrite Hib; reflexivity).
  destruct (header_split_corrected (it_imports i) [it_block i] Hiim Hibr ltac:(discriminate) Hbs2)
    as [h2 [S2 P2]].
  unfold merge, item_text. rewrite S1, S2.
  rewrite (parse_import_lines_app _ _ _ _ P1 P2).
  fold (norm_imports (im ++ it_imports i)).
  pose proof (wf_block_facts _ Hib) as [Hbne [_ [Hs [He Hd]]]].
  destruct (trim_nl_block _ Hbne Hs He) as [_ T2].
  rewrite render_body_cons, render_body_nil. cbn [tl]. rewrite T2, Hd.
  rewrite (body_split bs Hne Hbs).
  rewrite (insert_loop_spec _ _ Hib Hbs). reflexivity.
Qed.

Lemma wf_item_brace_ok i : wf_item i = true -> forallb brace_ok (it_imports i) = true.
Proof.
  unfold wf_item. rewrite andb_true_iff. intros [H _]. apply wf_groups_brace_ok. exact H.
Qed.

Lemma merge_bridge im bs i :
  forallb wf_group im = true -> bs <> [] -> forallb wf_block bs = true -> wf_item i = true ->
  merge (render_file im bs) (item_text i)
  = Ok (render_imports (norm_imports (im ++ it_imports i)) ++ render_body (insert_block (it_block i) bs)).
Proof.
  intros H1 H2 H3 H4. apply merge_bridge_corrected; try assumption.
  - apply wf_groups_brace_ok. exact H1.
  - apply wf_item_brace_ok. exact H4.
Qed.

(* ---- D. no stale tail --------------------------------------------------------------------- *)
Lemma join_size_cons sep x l :
  utf8_size (join sep (x :: l)) =
  utf8_size x + match l with [] => 0 | _ => utf8_size sep + utf8_size (join sep l) end.
Proof.
  destruct l as [|y l].
  - cbn [join]. lia.
  - rewrite join_cons2, !utf8_size_app. reflexivity.
Qed.

Lemma set_insert_grows sep x l :
  utf8_size (join sep l) <= utf8_size (join sep (set_insert x l)).
Proof.
  induction l as [|y r IH].
  - cbn [join]. rewrite utf8_size_nil. lia.
  - cbn [set_insert]. destruct (str_compare x y).
    + lia.
    + rewrite (join_cons2 sep x y r), !utf8_size_app. lia.
    + rewrite !join_size_cons. destruct r as [|z r].
      * cbn [set_insert]. lia.
      * destruct (set_insert x (z :: r)) as [|w q] eqn:E.
        -- exfalso. cbn [set_insert] in E. destruct (str_compare x z); discriminate E.
        -- lia.
Qed.

Lemma fold_set_insert_grows sep tys s :
  utf8_size (join sep s) <= utf8_size (join sep (fold_left (fun s t => set_insert t s) tys s)).
Proof.
  revert s; induction tys as [|t tys IH]; intros s; cbn [fold_left]; [lia|].
  eapply N.le_trans; [apply (set_insert_grows sep t s) | apply IH].
Qed.

Lemma render_import_mono p s s' :
  utf8_size (join s_comma_sp s) <= utf8_size (join s_comma_sp s') ->
  utf8_size (render_import (p, s)) <= utf8_size (render_import (p, s')).
Proof. intros H. unfold render_import. cbn [fst snd]. rewrite !utf8_size_app. lia. Qed.

Lemma render_imports_cons e m : render_imports (e :: m) = render_import e ++ render_imports m.
Proof. reflexivity. Qed.

(* inserting into the import map never makes the rendered imports shorter *)
Lemma render_imports_insert_grows p tys m :
  utf8_size (render_imports m) <= utf8_size (render_imports (map_insert p tys m)).
Proof.
  induction m as [|[q s] r IH].
  - change (render_imports []) with (@nil char). rewrite utf8_size_nil. lia.
  - cbn [map_insert]. destruct (str_compare p q).
    + rewrite !render_imports_cons, !utf8_size_app.
      pose proof (render_import_mono q s _ (fold_set_insert_grows s_comma_sp tys s)). lia.
    + rewrite (render_imports_cons (p, _)), utf8_size_app. lia.
    + rewrite !render_imports_cons, !utf8_size_app. lia.
Qed.

Lemma render_body_insert_grows b bs :
  utf8_size (render_body bs) <= utf8_size (render_body (insert_block b bs)).
Proof.
  induction bs as [|c r IH]; cbn [insert_block].
  - rewrite render_body_nil, utf8_size_nil. lia.
  - destruct (str_ltb (key_of c) (key_of b)).
    + rewrite !render_body_cons, !utf8_size_cons, !utf8_size_app, !utf8_size_cons. lia.
    + rewrite (render_body_cons b), utf8_size_cons, utf8_size_app, utf8_size_cons. lia.
Qed.

Lemma fold_map_insert_grows l m :
  utf8_size (render_imports m)
  <= utf8_size (render_imports (fold_left (fun m e => map_insert (fst e) (snd e) m) l m)).
Proof.
  revert m; induction l as [|e l IH]; intros m; cbn [fold_left]; [lia|].
  eapply N.le_trans; [apply (render_imports_insert_grows (fst e) (snd e) m) | apply IH].
Qed.

Lemma norm_imports_app_grows im l :
  norm_imports im = im ->
  utf8_size (render_imports im) <= utf8_size (render_imports (norm_imports (im ++ l))).
Proof.
  intros H. unfold norm_imports. rewrite fold_left_app. fold (norm_imports im). rewrite H.
  apply fold_map_insert_grows.
Qed.

Lemma firstn_length_app {A} (l x : list A) : firstn (length l) (l ++ x) = l.
Proof.
  rewrite firstn_app, firstn_all, Nat.sub_diag. cbn [firstn]. apply app_nil_r.
Qed.

(* the in-place rewrite from offset NOTE.len() therefore never leaves stale bytes behind *)
(* version with the brace condition explicit; with the first `name_char` the original was false:
     Lemma merge_into_file_bridge im bs i :
       norm_imports im = im ->
       forallb wf_group im = true -> bs <> [] -> forallb wf_block bs = true -> wf_item i = true ->
       merge_into_file (render_file im bs) (item_text i)
       = Ok (render_file (norm_imports (im ++ it_imports i)) (insert_block (it_block i) bs)). *)
Lemma merge_into_file_bridge_corrected im bs i :
  norm_imports im = im ->
  forallb wf_group im = true -> forallb brace_ok im = true ->
  bs <> [] -> forallb wf_block bs = true ->
  wf_item i = true -> forallb brace_ok (it_imports i) = true ->
  merge_into_file (render_file im bs) (item_text i)
  = Ok (render_file (norm_imports (im ++ it_imports i)) (insert_block (it_block i) bs)).
Proof.
  intros Hn Him Hbr Hne Hbs Hi Hibr. unfold merge_into_file.
  rewrite (merge_bridge_corrected im bs i Him Hbr Hne Hbs Hi Hibr). cbn [bind].
  unfold rewrite_file.
  assert (Hle : (utf8_size (render_file im bs) <=?
                 N.of_nat NOTE_len +
                 utf8_size (render_imports (norm_imports (im ++ it_imports i)) ++
                            render_body (insert_block (it_block i) bs))) = true).
  { apply N.leb_le. unfold render_file. rewrite !utf8_size_app, NOTE_ascii.
    pose proof (norm_imports_app_grows im (it_imports i) Hn).
    pose proof (render_body_insert_grows (it_block i) bs). lia. }
  rewrite Hle. unfold render_file at 1. unfold NOTE_len. rewrite firstn_length_app. reflexivity.
Qed.

Lemma merge_into_file_bridge im bs i :
  norm_imports im = im ->
  forallb wf_group im = true -> bs <> [] -> forallb wf_block bs = true -> wf_item i = true ->
  merge_into_file (render_file im bs) (item_text i)
  = Ok (render_file (norm_imports (im ++ it_imports i)) (insert_block (it_block i) bs)).
Proof.
  intros H0 H1 H2 H3 H4. apply merge_into_file_bridge_corrected; try assumption.
  - apply wf_groups_brace_ok. exact H1.
  - apply wf_item_brace_ok. exact H4.
Qed.
