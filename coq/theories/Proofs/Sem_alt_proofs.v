(* Object types as ONE alternative of the disjunctive normal form: what `memberb` of an intersection looks at.  Used for the
   content of a newtype variant of an internally tagged enum (`{ "tag": "Name" } & Content`): the object serde writes for the
   content, extended by the tag entry, inhabits the intersection. *)
From TsRs Require Import Base.Str Base.Outcome Model.TsAst Spec.TsFree Spec.TsSem Proofs.Sem_base_proofs.
From Coq Require Import List Lia Bool Sorting.Permutation.
Import ListNotations.
Local Open Scope nat_scope.

Section EvAlt.
Variable E : denv.
Notation ev := (ev_mem E).

Definition pkeys (ps : list (phead * tsty)) : list str := map (fun p => p_key (fst p)) ps.

(* from some depth on, the type denotes the single alternative `(ps, [])` (an exact object without index signature) with
   property keys ks, and the entries inhabit it *)
Definition ev_alt (t : tsty) (ks : list str) (es : list (str * json)) : Prop :=
  exists ps, pkeys ps = ks /\ exists f0,
    (forall f, f0 <= f -> dnf E f t = Some [(ps, [])]) /\
    (forall f, f0 <= f -> alt_member (memberb E f) (ps, []) es = true).

Lemma ev_alt_obj st props entries :
  ev (TObj st props) (JObj entries) -> ev_alt (TObj st props) (pkeys props) entries.
Proof.
  intros [f0 H]. exists props. split; [reflexivity|]. exists (S f0). split.
  - intros [|f] Hf; [lia|]. reflexivity.
  - intros f Hf. specialize (H (S f) ltac:(lia)). cbn [memberb] in H. exact H.
Qed.

Lemma ev_alt_step (wrap : tsty -> tsty) t ks es :
  (forall f, dnf E (S f) (wrap t) = dnf E f t) -> ev_alt t ks es -> ev_alt (wrap t) ks es.
Proof.
  intros Hw (ps & Hk & f0 & Hd & Hm). exists ps. split; [exact Hk|]. exists (S f0). split.
  - intros [|f] Hf; [lia|]. rewrite Hw. apply Hd. lia.
  - intros f Hf. apply Hm. lia.
Qed.

Lemma ev_alt_merged t ks es : ev_alt t ks es -> ev_alt (TMerged t) ks es.
Proof. apply ev_alt_step. reflexivity. Qed.
Lemma ev_alt_paren t ks es : ev_alt t ks es -> ev_alt (TParen t) ks es.
Proof. apply ev_alt_step. reflexivity. Qed.

Lemma ev_alt_ref n dc l ks es :
  dlookup E n = Some dc ->
  ev_alt (tsubst (bind_params (d_params dc) l) (bind_params (d_params dc) l) (d_body dc)) ks es ->
  ev_alt (TRef n l) ks es.
Proof.
  intros Hl (ps & Hk & f0 & Hd & Hm). exists ps. split; [exact Hk|]. exists (S f0). split.
  - intros [|f] Hf; [lia|]. cbn [dnf]. unfold unfold_ref. rewrite Hl. apply Hd. lia.
  - intros f Hf. apply Hm. lia.
Qed.

(* every entry of a member of an exact object is one of its properties *)
Lemma alt_member_entry_keys mem ps es : alt_member mem (ps, []) es = true -> forall e, In e es -> In (fst e) (pkeys ps).
Proof.
  unfold alt_member. cbn [fst snd]. intros H e He. apply andb_true_iff in H as [_ H]. rewrite forallb_forall in H. specialize (H e He).
  destruct (assoc (fst e) (map (fun p => (p_key (fst p), snd p)) ps)) as [t|] eqn:Ha; [|discriminate].
  apply assoc_in in Ha. apply in_map_iff in Ha as ([p t'] & Heq & Hp). cbn [fst snd] in Heq. inversion Heq; subst.
  unfold pkeys. apply in_map_iff. exists (p, t). split; [reflexivity | exact Hp].
Qed.

Lemma assoc_app_l {A} k (l1 l2 : list (str * A)) v : assoc k l1 = Some v -> assoc k (l1 ++ l2) = Some v.
Proof. induction l1 as [|[x y] l1 IH]; cbn; [discriminate|]. destruct (str_eqb x k); [auto | exact IH]. Qed.

Lemma assoc_app_r {A} k (l1 l2 : list (str * A)) : assoc k l1 = None -> assoc k (l1 ++ l2) = assoc k l2.
Proof. induction l1 as [|[x y] l1 IH]; cbn; [reflexivity|]. destruct (str_eqb x k); [discriminate | exact IH]. Qed.

Lemma assoc_notin_none {A} k (l : list (str * A)) : ~ In k (map fst l) -> assoc k l = None.
Proof.
  induction l as [|[x y] l IH]; cbn; intros H; [reflexivity|]. destruct (str_eqb x k) eqn:Ek.
  - apply str_eqb_true in Ek. subst. exfalso. apply H. left. reflexivity.
  - apply IH. intros Hin. apply H. right. exact Hin.
Qed.

Lemma assoc_in_keys {A} k (l : list (str * A)) v : assoc k l = Some v -> In k (map fst l).
Proof. intros H. apply assoc_in in H. change k with (fst (k, v)). apply in_map. exact H. Qed.

(* two exact objects over disjoint keys merge into the exact object of both *)
Lemma alt_member_merge mem ps qs es1 es2 :
  alt_member mem (ps, []) es1 = true -> alt_member mem (qs, []) es2 = true ->
  (forall k, In k (pkeys ps) -> ~ In k (pkeys qs)) ->
  alt_member mem (ps ++ qs, []) (es1 ++ es2) = true.
Proof.
  intros H1 H2 Hdis.
  pose proof (alt_member_entry_keys mem ps es1 H1) as K1. pose proof (alt_member_entry_keys mem qs es2 H2) as K2.
  unfold alt_member in *. cbn [fst snd] in *. apply andb_true_iff in H1 as [P1 E1]. apply andb_true_iff in H2 as [P2 E2].
  rewrite forallb_forall in P1, P2, E1, E2. apply andb_true_iff. split; apply forallb_forall.
  - intros p Hp. apply in_app_or in Hp as [Hp|Hp].
    + specialize (P1 p Hp). destruct (assoc (p_key (fst p)) es1) as [v|] eqn:Ha.
      * rewrite (assoc_app_l _ _ es2 _ Ha). exact P1.
      * rewrite (assoc_app_r _ _ es2 Ha). rewrite assoc_notin_none; [exact P1|].
        intros Hin. apply in_map_iff in Hin as (e & He & Hine). apply (Hdis (p_key (fst p))).
        -- unfold pkeys. apply (in_map (fun q : phead * tsty => p_key (fst q))). exact Hp.
        -- rewrite <- He. apply K2. exact Hine.
    + specialize (P2 p Hp). rewrite assoc_app_r; [exact P2|]. apply assoc_notin_none.
      intros Hin. apply in_map_iff in Hin as (e & He & Hine). apply (Hdis (fst e)); [apply K1; exact Hine|].
      rewrite He. unfold pkeys. apply (in_map (fun q : phead * tsty => p_key (fst q))). exact Hp.
  - intros e He. rewrite map_app. apply in_app_or in He as [He|He].
    + specialize (E1 e He). destruct (assoc (fst e) (map (fun p => (p_key (fst p), snd p)) ps)) as [t|] eqn:Ha; [|discriminate].
      rewrite (assoc_app_l _ _ _ _ Ha). reflexivity.
    + specialize (E2 e He). destruct (assoc (fst e) (map (fun p => (p_key (fst p), snd p)) qs)) as [t|] eqn:Ha; [|discriminate].
      rewrite assoc_app_r; [rewrite Ha; reflexivity|]. apply assoc_notin_none. rewrite map_map. cbn [fst].
      intros Hin. apply (Hdis (fst e)); [exact Hin|]. apply assoc_in_keys in Ha. rewrite map_map in Ha. exact Ha.
Qed.

Lemma pkeys_app ps qs : pkeys (ps ++ qs) = pkeys ps ++ pkeys qs.
Proof. unfold pkeys. apply map_app. Qed.

(* the intersection of two such types *)
Lemma ev_alt_inter2 t1 t2 ks1 ks2 es1 es2 :
  ev_alt t1 ks1 es1 -> ev_alt t2 ks2 es2 -> (forall k, In k ks1 -> ~ In k ks2) ->
  ev_alt (TInter [t1; t2]) (ks1 ++ ks2) (es1 ++ es2).
Proof.
  intros (ps & Hk1 & f1 & Hd1 & Hm1) (qs & Hk2 & f2 & Hd2 & Hm2) Hdis. exists (ps ++ qs). split; [rewrite pkeys_app, Hk1, Hk2; reflexivity|].
  exists (S (Nat.max f1 f2)). split.
  - intros [|f] Hf; [lia|]. cbn [dnf fold_right]. rewrite Hd1, Hd2 by lia. cbn [flat_map map app]. unfold alt_merge. cbn [fst snd app]. rewrite !app_nil_r. reflexivity.
  - intros f Hf. apply alt_member_merge; [apply Hm1; lia | apply Hm2; lia|]. subst ks1 ks2. exact Hdis.
Qed.

(* such an intersection has the object as a member *)
Lemma ev_of_alt_inter ts ks es : ev_alt (TInter ts) ks es -> ev (TInter ts) (JObj es).
Proof.
  intros (ps & _ & f0 & Hd & Hm). exists (S f0). intros [|f] Hf; [lia|]. cbn [memberb]. rewrite Hd by lia.
  cbn [existsb]. rewrite Hm by lia. reflexivity.
Qed.

(* ---- the order of the entries does not matter (distinct keys) ---- *)
Lemma assoc_perm {A} k (l l' : list (str * A)) : NoDup (map fst l) -> Permutation l l' -> assoc k l = assoc k l'.
Proof.
  intros Hnd Hp. destruct (assoc k l) as [v|] eqn:Ha.
  - apply assoc_in in Ha. pose proof (Permutation_in _ Hp Ha) as Hin'.
    destruct (assoc_some_of_in k v l' Hin') as [v' Hv']. rewrite Hv'. f_equal. apply assoc_in in Hv'.
    eapply (nodup_keys_unique l' k v v'); [|exact Hin' | exact Hv'].
    eapply Permutation_NoDup; [apply Permutation_map; exact Hp | exact Hnd].
  - destruct (assoc k l') as [v'|] eqn:Ha'; [|reflexivity]. exfalso. apply assoc_in in Ha'.
    apply (assoc_none_notin k l Ha v'). eapply Permutation_in; [apply Permutation_sym; exact Hp | exact Ha'].
Qed.

Lemma forallb_perm {A} (p : A -> bool) l l' : Permutation l l' -> forallb p l = forallb p l'.
Proof.
  induction 1 as [|x l l' _ IH|x y l|l l' l'' _ IH1 _ IH2]; cbn; [reflexivity | rewrite IH; reflexivity | | congruence].
  destruct (p x), (p y); reflexivity.
Qed.

Lemma alt_member_perm mem a es es' : NoDup (map fst es) -> Permutation es es' -> alt_member mem a es = alt_member mem a es'.
Proof.
  intros Hnd Hp. unfold alt_member. f_equal.
  - induction (fst a) as [|p ps IH]; cbn [forallb]; [reflexivity|]. rewrite (assoc_perm _ es es' Hnd Hp), IH. reflexivity.
  - apply forallb_perm. exact Hp.
Qed.

Lemma ev_alt_perm t ks es es' : NoDup (map fst es) -> Permutation es es' -> ev_alt t ks es -> ev_alt t ks es'.
Proof.
  intros Hnd Hp (ps & Hk & f0 & Hd & Hm). exists ps. split; [exact Hk|]. exists f0. split; [exact Hd|].
  intros f Hf. rewrite <- (alt_member_perm _ _ es es' Hnd Hp). apply Hm. exact Hf.
Qed.

(* ---- the intersection of any number of such types over pairwise disjoint keys ---- *)
Definition inter_fold (f : nat) (ts : list tsty) : option (list alt) :=
  fold_right (fun u acc => match dnf E f u, acc with
                           | Some a, Some b => Some (flat_map (fun x => map (alt_merge x) b) a)
                           | _, _ => None
                           end) (Some [([], [])]) ts.

Lemma dnf_inter f ts : dnf E (S f) (TInter ts) = inter_fold f ts.
Proof. reflexivity. Qed.

Fixpoint disjoint_lists (l : list (list str)) : Prop :=
  match l with
  | [] => True
  | ks :: r => (forall k, In k ks -> ~ In k (concat r)) /\ disjoint_lists r
  end.

Lemma ev_alt_inter : forall ts (kes : list (list str * list (str * json))),
  Forall2 (fun t ke => ev_alt t (fst ke) (snd ke)) ts kes -> disjoint_lists (map fst kes) ->
  exists ps, pkeys ps = concat (map fst kes) /\ exists f0,
    (forall f, f0 <= f -> inter_fold f ts = Some [(ps, [])]) /\
    (forall f, f0 <= f -> alt_member (memberb E f) (ps, []) (concat (map snd kes)) = true).
Proof.
  induction 1 as [|t [ks es] ts kes Ht _ IH]; cbn [map fst snd concat disjoint_lists]; intros Hdis.
  - exists []. split; [reflexivity|]. exists 0. split; intros f _; reflexivity.
  - destruct Hdis as [Hd1 Hd2]. destruct (IH Hd2) as (qs & Hkq & f2 & Hdq & Hmq).
    destruct Ht as (ps & Hkp & f1 & Hdp & Hmp). cbn [fst snd] in *.
    exists (ps ++ qs). split; [rewrite pkeys_app, Hkp, Hkq; reflexivity|]. exists (Nat.max f1 f2). split.
    + intros f Hf. cbn [inter_fold fold_right]. change (fold_right _ _ ts) with (inter_fold f ts). rewrite Hdp, Hdq by lia.
      cbn [flat_map map app]. unfold alt_merge. cbn [fst snd app]. reflexivity.
    + intros f Hf. apply alt_member_merge; [apply Hmp; lia | apply Hmq; lia|].
      intros k Hk. rewrite Hkp in Hk. rewrite Hkq. apply Hd1. exact Hk.
Qed.

Lemma ev_alt_inter_n ts kes :
  Forall2 (fun t ke => ev_alt t (fst ke) (snd ke)) ts kes -> disjoint_lists (map fst kes) ->
  ev_alt (TInter ts) (concat (map fst kes)) (concat (map snd kes)).
Proof.
  intros H Hd. destruct (ev_alt_inter ts kes H Hd) as (ps & Hk & f0 & Hdn & Hm). exists ps. split; [exact Hk|].
  exists (S f0). split.
  - intros [|f] Hf; [lia|]. rewrite dnf_inter. apply Hdn. lia.
  - intros f Hf. apply Hm. lia.
Qed.

(* an exact object is a member of its single alternative's type when that type is an object literal or an intersection *)
Lemma ev_of_alt_obj st props ks es : ev_alt (TObj st props) ks es -> ev (TObj st props) (JObj es).
Proof.
  intros (ps & _ & f0 & Hd & Hm). exists (S (S f0)). intros [|f] Hf; [lia|]. cbn [memberb].
  specialize (Hd (S f) ltac:(lia)). cbn [dnf] in Hd. inversion Hd; subst ps. apply Hm. lia.
Qed.
End EvAlt.
