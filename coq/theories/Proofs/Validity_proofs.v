(* C16: the derive never panics on any item; the documented incompatible combinations are rejected. *)
From TsRs Require Import Base.Str Base.Outcome Gen.Tables Model.Attr Model.Validity.
From Coq Require Import List Lia Bool.
Import ListNotations.

Definition not_panic {A} (o : outcome A) : Prop := forall m, o <> Panic m.

Lemma np_ok {A} (a : A) : not_panic (Ok a).
Proof. intros m H; discriminate. Qed.
Lemma np_err {A} m : not_panic (@Err A m).
Proof. intros m' H; discriminate. Qed.
Lemma np_bind {A B} (x : outcome A) (f : A -> outcome B) :
  not_panic x -> (forall a, x = Ok a -> not_panic (f a)) -> not_panic (bind x f).
Proof.
  intros Hx Hf. destruct x as [a|m|m]; cbn [bind]; [apply Hf; reflexivity | apply np_err | exfalso; eapply Hx; reflexivity].
Qed.

(* ---- the attribute layer -------------------------------------------------------------------- *)
Lemma run_handler_np k input : not_panic (run_handler k input).
Proof.
  destruct k; cbn [run_handler]; intros m.
  all: repeat match goal with
              | |- context [match ?x with _ => _ end] => destruct x
              end; cbn [bind]; discriminate.
Qed.

Lemma parse_ts_np fuel : forall table out input, not_panic (parse_ts fuel table out input).
Proof.
  induction fuel as [|f IH]; intros table out input; cbn [parse_ts]; [apply np_err|].
  destruct input as [|t rest]; [apply np_err|]. destruct t; try apply np_err.
  destruct (tlookup s table) as [h|]; [|apply np_err]. destruct (handler_of h) as [[field kind]|]; [|apply np_err].
  apply np_bind; [apply run_handler_np|]. intros r _. destruct (snd r) as [|t' r']; [apply np_ok|].
  destruct t'; try apply np_err. apply IH.
Qed.

Lemma parse_serde_np fuel : forall table out input, not_panic (parse_serde fuel table out input).
Proof.
  induction fuel as [|f IH]; intros table out input; cbn [parse_serde]; [apply np_err|].
  destruct input as [|t rest]; [apply np_err|]. destruct t; try apply np_err.
  assert (Hc : forall out' rest', not_panic (match rest' with
                                             | [] => Ok out'
                                             | [KComma] => Ok out'
                                             | KComma :: (_ :: _) as rest'' => parse_serde f table out' rest''
                                             | _ => Err e_comma
                                             end)).
  { intros out' rest'. destruct rest' as [|t1 r1]; [apply np_ok|]. destruct t1; try apply np_err. destruct r1; [apply np_ok | apply IH]. }
  destruct (tlookup s table) as [h|]; [|apply Hc]. destruct (handler_of h) as [[field kind]|]; [|apply np_err].
  apply np_bind; [apply run_handler_np|]. intros r _. apply Hc.
Qed.

Lemma parse_ts_attrs_np pos attrs : not_panic (parse_ts_attrs pos attrs).
Proof.
  induction attrs as [|[[|] toks] r IH]; cbn [parse_ts_attrs]; [apply np_ok| |exact IH].
  apply np_bind; [apply parse_ts_np|]. intros p _. apply np_bind; [exact IH|]. intros q _. apply np_ok.
Qed.

Theorem from_attrs_never_panics compat pos attrs : not_panic (from_attrs compat pos attrs).
Proof.
  unfold from_attrs. apply np_bind; [apply parse_ts_attrs_np|]. intros t _. destruct (compat && _); apply np_ok.
Qed.

(* ---- validity functions only ever answer Ok or Err -------------------------------------------- *)
Ltac np_ifs := repeat match goal with
                      | |- not_panic (if ?c then _ else _) => destruct c
                      | |- not_panic (match ?x with _ => _ end) => destruct x
                      end; first [apply np_ok | apply np_err].

Lemma struct_validity_np r sh : not_panic (struct_validity r sh).
Proof. unfold struct_validity, err. np_ifs. Qed.
Lemma enum_validity_np r : not_panic (enum_validity r).
Proof. unfold enum_validity, err. np_ifs. Qed.
Lemma variant_validity_np r sh : not_panic (variant_validity r sh).
Proof. unfold variant_validity, err. np_ifs. Qed.
Lemma field_validity_np c r n : not_panic (field_validity c r n).
Proof. unfold field_validity, err. np_ifs. Qed.
Lemma unit_check_np r : not_panic (unit_check r).
Proof. unfold unit_check, err. np_ifs. Qed.

Section Expand.
Variable compat : bool.

Lemma field_check_np f : not_panic (field_check compat f).
Proof.
  unfold field_check. apply np_bind; [apply from_attrs_never_panics|]. intros r _.
  apply np_bind; [apply field_validity_np|]. intros; apply np_ok.
Qed.

Lemma fields_check_np fs : not_panic (fields_check compat fs).
Proof. induction fs as [|f r IH]; cbn [fields_check]; [apply np_ok|]. apply np_bind; [apply field_check_np|]. intros; exact IH. Qed.

Lemma type_def_np r sh fields : not_panic (type_def compat r sh fields).
Proof.
  unfold type_def. apply np_bind; [apply struct_validity_np|]. intros _ _.
  destruct (has "type_override" r); [apply np_ok|]. destruct (has "type_as" r); [apply np_ok|].
  destruct sh; destruct fields as [|f [|f2 fs]]; try apply unit_check_np; try apply fields_check_np.
  - destruct (has "tag" r); [apply np_ok | apply unit_check_np].
  - apply np_bind; [apply field_check_np|]. intros; apply np_ok.
Qed.

(* the `expect` in StructAttr::from_variant is unreachable: assert_validity of the enum has already
   rejected every attribute combination for which EnumAttr::tagged fails *)
Lemma enum_validity_tagged r : enum_validity r = Ok tt -> tagged_ok r = true.
Proof.
  unfold enum_validity, tagged_ok, err.
  destruct (has "type_override" r), (has "type_as" r), (has "rename_all" r), (has "rename_all_fields" r),
           (has "tag" r), (has "content" r), (has "untagged" r); cbn; intros H; try discriminate H; reflexivity.
Qed.

Lemma variant_check_np er v : tagged_ok er = true -> not_panic (variant_check compat er v).
Proof.
  intros Ht. unfold variant_check. apply np_bind; [apply from_attrs_never_panics|]. intros vr _.
  apply np_bind; [apply variant_validity_np|]. intros _ _. destruct (has "skip" vr); [apply np_ok|].
  apply np_bind.
  - unfold variant_struct_attr. rewrite Ht. apply np_bind; [|intros; apply np_ok].
    destruct (iv_shape v); try apply np_ok. destruct (has "untagged" vr); [apply np_ok|].
    destruct (has "tag" er && negb (has "content" er) && negb (has "untagged" er)); apply np_ok.
  - intros sr _. apply np_bind; [apply type_def_np|]. intros _ _.
    destruct (has "type_as" vr && has "type_override" vr); [apply np_err|]. rewrite Ht. apply np_ok.
Qed.

Lemma variants_check_np er vs : tagged_ok er = true -> not_panic (variants_check compat er vs).
Proof.
  intros Ht. induction vs as [|v r IH]; cbn [variants_check]; [apply np_ok|].
  apply np_bind; [apply variant_check_np; exact Ht|]. intros; exact IH.
Qed.

(* for EVERY item (any attribute token lists at any position, any shapes): never a panic *)
Theorem expand_never_panics i : not_panic (expand compat i).
Proof.
  destruct i as [attrs sh fields|attrs vs]; cbn [expand].
  - apply np_bind; [apply from_attrs_never_panics|]. intros r _. apply type_def_np.
  - apply np_bind; [apply from_attrs_never_panics|]. intros r _.
    apply np_bind; [apply enum_validity_np|]. intros [] Hv.
    destruct (has "type_override" r); [apply np_ok|]. destruct (has "type_as" r); [apply np_ok|].
    apply variants_check_np. apply enum_validity_tagged. exact Hv.
Qed.
End Expand.

(* ---- the documented incompatible combinations are rejected ------------------------------------- *)
Theorem struct_conflicts_rejected r sh : struct_validity r sh = Ok tt ->
  (has "type_override" r = true -> has "type_as" r = false /\ has "rename_all" r = false /\ has "tag" r = false /\ has "optional_fields" r = false) /\
  (has "type_as" r = true -> has "tag" r = false /\ has "rename_all" r = false /\ has "optional_fields" r = false) /\
  (sh <> FNamed -> has "tag" r = false /\ has "rename_all" r = false /\ has "optional_fields" r = false).
Proof.
  unfold struct_validity, err.
  destruct (has "type_override" r), (has "type_as" r), (has "rename_all" r), (has "tag" r), (has "optional_fields" r), sh;
    cbn; intros H; try discriminate H; repeat split; intros; try reflexivity; try discriminate; try contradiction.
Qed.

Theorem enum_conflicts_rejected r : enum_validity r = Ok tt ->
  (has "type_override" r = true -> has "type_as" r = false /\ has "rename_all" r = false /\ has "rename_all_fields" r = false /\
                                   has "tag" r = false /\ has "content" r = false /\ has "untagged" r = false) /\
  (has "type_as" r = true -> has "rename_all" r = false /\ has "rename_all_fields" r = false /\ has "tag" r = false /\
                             has "content" r = false /\ has "untagged" r = false) /\
  (has "untagged" r = true -> has "tag" r = false /\ has "content" r = false) /\
  (has "content" r = true -> has "tag" r = true).
Proof.
  unfold enum_validity, err.
  destruct (has "type_override" r), (has "type_as" r), (has "rename_all" r), (has "rename_all_fields" r),
           (has "tag" r), (has "content" r), (has "untagged" r);
    cbn; intros H; try discriminate H; repeat split; intros; try reflexivity; try discriminate.
Qed.

Theorem variant_conflicts_rejected r sh : variant_validity r sh = Ok tt ->
  (has "type_as" r = true -> has "type_override" r = false /\ has "rename_all" r = false) /\
  (has "type_override" r = true -> has "rename_all" r = false /\ has "inline" r = false) /\
  (sh <> FNamed -> has "rename_all" r = false).
Proof.
  unfold variant_validity, err.
  destruct (has "type_as" r), (has "type_override" r), (has "rename_all" r), (has "inline" r), sh;
    cbn; intros H; try discriminate H; repeat split; intros; try reflexivity; try discriminate; try contradiction.
Qed.

Theorem field_conflicts_rejected c r named : field_validity c r named = Ok tt ->
  (c = true -> has "using_serde_with" r = true -> has "type_as" r = true \/ has "type_override" r = true) /\
  (has "type_override" r = true -> has "type_as" r = false /\ has "inline" r = false /\ has "flatten" r = false /\ has "optional" r = false) /\
  (has "flatten" r = true -> has "type_as" r = false /\ has "rename" r = false /\ has "inline" r = false /\ has "optional" r = false) /\
  (named = false -> has "flatten" r = false /\ has "rename" r = false /\ has "optional" r = false).
Proof.
  unfold field_validity, err.
  destruct c, (has "using_serde_with" r), (has "type_as" r), (has "type_override" r), (has "inline" r), (has "flatten" r),
           (has "optional" r), (has "rename" r), named;
    cbn; intros H; try discriminate H; repeat split; intros; try reflexivity; try discriminate; auto.
Qed.
