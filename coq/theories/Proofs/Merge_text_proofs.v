(* C14 / C04: the text named.rs builds for `{ own fields } & flattened & ..` (Model/TsAst.v: glue, the operand-wise
   merge of the repaired code) is the text of the STRUCTURAL merge (Spec/TsSem.v: merge_adjacent): object literals
   that meet are concatenated, everything else is joined with ` & `.  For every list of operands that are non-empty
   struct objects or whose text neither begins with `{ ` nor ends with ` }` (parenthesised unions, references,
   type parameters). *)
From TsRs Require Import Base.Str Model.TsAst Spec.TsFree Spec.TsSem.
From Coq Require Import List NArith Bool Lia.
Import ListNotations.
Open Scope N_scope.

(* ---- strings ------------------------------------------------------------------------------------ *)
Lemma starts_with_app p r : starts_with p (p ++ r) = true.
Proof. apply starts_with_spec. exists r. reflexivity. Qed.

Lemma ends_with_app p a : ends_with p (a ++ p) = true.
Proof. unfold ends_with. rewrite rev_app_distr. apply starts_with_app. Qed.

Lemma starts_with_firstn p s : (length p <= length s)%nat -> starts_with p s = starts_with p (firstn (length p) s).
Proof.
  revert s. induction p as [|x p IH]; intros s H; cbn [starts_with length firstn]; [reflexivity|].
  destruct s as [|y s]; [cbn in H; lia|]. cbn [firstn starts_with]. rewrite IH by (cbn in H; lia). reflexivity.
Qed.

(* whether a text of at least |p| characters ends with p does not depend on what stands before it *)
Lemma ends_with_suffix p a s : (length p <= length s)%nat -> ends_with p (a ++ s) = ends_with p s.
Proof.
  intros H. unfold ends_with. rewrite rev_app_distr.
  rewrite (starts_with_firstn (rev p) (rev s ++ rev a)) by (rewrite app_length, !rev_length; lia).
  rewrite (starts_with_firstn (rev p) (rev s)) by (rewrite !rev_length; lia).
  rewrite firstn_app. rewrite !rev_length.
  replace (length p - length s)%nat with 0%nat by lia. cbn [firstn]. rewrite app_nil_r. reflexivity.
Qed.

Lemma removelast_app_one {A} (l : list A) x : removelast (l ++ [x]) = l.
Proof. apply removelast_last. Qed.

Lemma join_app2 sep (l1 l2 : list str) : l1 <> [] -> l2 <> [] -> join sep (l1 ++ l2) = join sep l1 ++ sep ++ join sep l2.
Proof.
  induction l1 as [|x [|y r] IH]; intros H1 H2; [contradiction| |].
  - destruct l2 as [|z l2]; [contradiction|]. reflexivity.
  - change ((x :: y :: r) ++ l2) with (x :: (y :: r) ++ l2).
    change (join sep (x :: (y :: r) ++ l2)) with (x ++ sep ++ join sep ((y :: r) ++ l2)).
    rewrite IH by (discriminate || assumption). cbn [join]. rewrite <- !app_assoc. reflexivity.
Qed.

(* ---- the text of a struct object ------------------------------------------------------------- *)
Definition sitem (p : phead * tsty) : str :=
  (match p_docs (fst p) with [] => [] | d => nl :: d end) ++ p_text (fst p) ++
  (if p_optional (fst p) then lit "?" else []) ++ lit ": " ++ print (snd p) ++ lit ",".
Definition sbody (ps : list (phead * tsty)) : str := join [sp] (map sitem ps).

Lemma print_sobj ps : print (TObj OStruct ps) = [123; 32] ++ sbody ps ++ [32; 125].
Proof. reflexivity. Qed.

Lemma sbody_app ps qs : ps <> [] -> qs <> [] -> sbody (ps ++ qs) = sbody ps ++ [32] ++ sbody qs.
Proof.
  intros Hp Hq. unfold sbody. rewrite map_app. apply join_app2; [destruct ps; [contradiction | discriminate] | destruct qs; [contradiction | discriminate]].
Qed.

(* ---- operands ---------------------------------------------------------------------------------- *)
Definition okop (t : tsty) : Prop :=
  match t with
  | TObj OStruct ps => ps <> []
  | _ => starts_with [123; 32] (print t) = false /\ ends_with [32; 125] (print t) = false /\ (2 <= length (print t))%nat
  end.

Lemma okop_app ps qs : ps <> [] -> okop (TObj OStruct (ps ++ qs)).
Proof. intros H. cbn. destruct ps; [contradiction | discriminate]. Qed.

Lemma print_len_obj ps : (2 <= length (print (TObj OStruct ps)))%nat.
Proof. rewrite print_sobj. cbn [app length]. lia. Qed.

(* gluing two non-empty struct objects gives the object of the concatenated properties *)
Lemma glue_two_objects pre ps qs : ps <> [] -> qs <> [] ->
  removelast (pre ++ print (TObj OStruct ps)) ++ skipn 2 (print (TObj OStruct qs)) = pre ++ print (TObj OStruct (ps ++ qs)).
Proof.
  intros Hp Hq. rewrite !print_sobj, (sbody_app ps qs Hp Hq).
  replace (pre ++ [123; 32] ++ sbody ps ++ [32; 125]) with ((pre ++ [123; 32] ++ sbody ps ++ [32]) ++ [125]) by (rewrite <- ?app_assoc; reflexivity).
  rewrite removelast_app_one. cbn [skipn]. repeat (rewrite <- app_assoc || cbn [app]). reflexivity.
Qed.

Lemma glue_step_obj pre ps qs : ps <> [] -> qs <> [] ->
  (if starts_with (lit "{ ") (print (TObj OStruct qs)) && ends_with (lit " }") (pre ++ print (TObj OStruct ps))
   then removelast (pre ++ print (TObj OStruct ps)) ++ skipn 2 (print (TObj OStruct qs))
   else (pre ++ print (TObj OStruct ps)) ++ lit " & " ++ print (TObj OStruct qs))
  = pre ++ print (TObj OStruct (ps ++ qs)).
Proof.
  intros Hp Hq.
  assert (H1 : starts_with (lit "{ ") (print (TObj OStruct qs)) = true) by (rewrite print_sobj; apply (starts_with_app [123; 32])).
  assert (H2 : ends_with (lit " }") (pre ++ print (TObj OStruct ps)) = true).
  { rewrite print_sobj. replace (pre ++ [123; 32] ++ sbody ps ++ [32; 125]) with ((pre ++ [123; 32] ++ sbody ps) ++ [32; 125]) by (rewrite <- ?app_assoc; reflexivity).
    apply (ends_with_app [32; 125]). }
  rewrite H1, H2. cbn [andb]. apply glue_two_objects; assumption.
Qed.

(* any other pair of neighbours is joined with ` & ` *)
Lemma glue_step_other pre cur x : okop cur -> okop x ->
  match cur, x with TObj OStruct _, TObj OStruct _ => False | _, _ => True end ->
  (if starts_with (lit "{ ") (print x) && ends_with (lit " }") (pre ++ print cur)
   then removelast (pre ++ print cur) ++ skipn 2 (print x)
   else (pre ++ print cur) ++ lit " & " ++ print x)
  = (pre ++ print cur ++ lit " & ") ++ print x.
Proof.
  intros Hc Hx Hne.
  assert (Hcond : starts_with (lit "{ ") (print x) && ends_with (lit " }") (pre ++ print cur) = false).
  { destruct x as [n|n|n|n a|u| | |ts|st ps|k v|a b|ts|ts|u|l|r|u|u];
      try (destruct Hx as (Hx1 & _ & _); change (lit "{ ") with [123; 32]; rewrite Hx1; reflexivity).
    destruct st.
    - (* x is a struct object: cur is not *)
      destruct cur as [n|n|n|n a|u| | |ts|st' ps'|k v|a b|ts|ts|u|l|r|u|u];
        try (destruct Hc as (_ & Hc2 & Hc3); rewrite (ends_with_suffix (lit " }") pre _ Hc3); change (lit " }") with [32; 125]; rewrite Hc2; apply andb_false_r).
      destruct st'; [contradiction|].
      destruct Hc as (_ & Hc2 & Hc3). rewrite (ends_with_suffix (lit " }") pre _ Hc3). change (lit " }") with [32; 125]. rewrite Hc2. apply andb_false_r.
    - destruct Hx as (Hx1 & _ & _). change (lit "{ ") with [123; 32]. rewrite Hx1. reflexivity. }
  rewrite Hcond. rewrite <- ?app_assoc. reflexivity.
Qed.

Lemma merge_from_nonempty cur rest : merge_from cur rest <> [].
Proof.
  revert cur. induction rest as [|x r IH]; intros cur; cbn [merge_from]; [discriminate|].
  destruct cur as [n|n|n|n a|u| | |ts|st ps|k v|a b|ts|ts|u|l|rw|u|u]; try discriminate.
  destruct st; [|discriminate]. destruct x as [n|n|n|n a|u| | |ts|st qs|k v|a b|ts|ts|u|l|rw|u|u]; try discriminate.
  destruct st; [apply IH | discriminate].
Qed.

Lemma join_cons_ne sep (x : str) l : l <> [] -> join sep (x :: l) = x ++ sep ++ join sep l.
Proof. destruct l; [contradiction | reflexivity]. Qed.

Lemma glue_from_merge : forall rest cur pre, okop cur -> Forall okop rest ->
  glue_from (pre ++ print cur) (map print rest) = pre ++ join (lit " & ") (map print (merge_from cur rest)).
Proof.
  induction rest as [|x r IH]; intros cur pre Hc Hr; cbn [map glue_from merge_from].
  - cbn [map join]. reflexivity.
  - inversion Hr as [|? ? Hx Hr']; subst.
    assert (Hcase : (exists ps qs, cur = TObj OStruct ps /\ x = TObj OStruct qs) \/
                    match cur, x with TObj OStruct _, TObj OStruct _ => False | _, _ => True end).
    { destruct cur as [n|n|n|n a|u| | |ts|st ps|k v|a b|ts|ts|u|l|rw|u|u]; try (right; exact I).
      destruct st; [|right; exact I].
      destruct x as [n|n|n|n a|u| | |ts|st qs|k v|a b|ts|ts|u|l|rw|u|u]; try (right; exact I).
      destruct st; [left; eauto | right; exact I]. }
    destruct Hcase as [(ps & qs & -> & ->)|Hne].
    + cbn in Hc, Hx.
      match goal with |- glue_from ?a _ = _ => replace a with (pre ++ print (TObj OStruct (ps ++ qs))) by (symmetry; apply glue_step_obj; assumption) end.
      apply IH; [apply okop_app; exact Hc | exact Hr'].
    + match goal with |- glue_from ?a _ = _ => replace a with ((pre ++ print cur ++ lit " & ") ++ print x) by (symmetry; apply glue_step_other; assumption) end.
      rewrite (IH x (pre ++ print cur ++ lit " & ") Hx Hr').
      assert (Hm : merge_from cur (x :: r) = cur :: merge_from x r).
      { cbn [merge_from]. destruct cur as [n|n|n|n a|u| | |ts|st ps|k v|a b|ts|ts|u|l|rw|u|u]; try reflexivity.
        destruct st; [|reflexivity]. destruct x as [n|n|n|n a|u| | |ts|st qs|k v|a b|ts|ts|u|l|rw|u|u]; try reflexivity.
        destruct st; [contradiction | reflexivity]. }
      cbn [merge_from] in Hm. rewrite Hm. cbn [map]. rewrite join_cons_ne by (pose proof (merge_from_nonempty x r) as Hn; destruct (merge_from x r); [contradiction | discriminate]).
      rewrite <- ?app_assoc. reflexivity.
Qed.

(* the text of the merged operands is the text of the structurally merged intersection *)
Theorem glue_is_structural_merge l : l <> [] -> Forall okop l ->
  print (TMerged (TInter l)) = print (inter_of (merge_adjacent l)).
Proof.
  intros Hne Hall. destruct l as [|x r]; [contradiction|]. inversion Hall as [|? ? Hx Hr]; subst.
  change (print (TMerged (TInter (x :: r)))) with (glue_from (print x) (map print r)).
  pose proof (glue_from_merge r x [] Hx Hr) as H. cbn [app] in H. rewrite H. cbn [merge_adjacent].
  unfold inter_of. destruct (merge_from x r) as [|y [|z m]] eqn:Hm.
  - exfalso. eapply merge_from_nonempty. exact Hm.
  - reflexivity.
  - reflexivity.
Qed.
