(* C03 (dependency level): every type name the generated TypeScript refers to is the TypeScript
   identifier of an exportable type that the generated visit_dependencies() hands to the visitor —
   for all environments, nesting depths and type arguments.  At the name() level the two sets are
   equal.  Library layer by induction over `rty`, derive layer by case analysis, knot by induction
   on fuel (gen and deps side by side). *)
From TsRs Require Import Base.Str Base.Outcome Gen.Tables Model.Case Model.TsAst Model.Rust Model.Docs Model.Gen
  Spec.TsFree Spec.RtyInd Proofs.Gen_base_proofs.
From Coq Require Import List Lia Bool.
Import ListNotations.

Section Refs.
Variable is_upper is_alnum is_numeric : char -> bool.
Variable R : env.

Notation name_of := (name_of R).
Notation lib_inline := (lib_inline R).
Notation lib_flat := (lib_flat R).
Notation lib_vdeps := (lib_vdeps R).
Notation gen := (gen is_upper is_alnum is_numeric R).
Notation deps := (deps R).

(* the TypeScript identifier of a visited type, if it is exportable (Dependency::from_ty) *)
Definition eid (u : rty) : list str :=
  match out_path R u with Some _ => [ident_of R u] | None => [] end.
Definition eids (l : list rty) : list str := flat_map eid l.

Lemma eids_app a b : eids (a ++ b) = eids a ++ eids b.
Proof. unfold eids. apply flat_map_app. Qed.

Lemma eids_cons u l : eids (u :: l) = eid u ++ eids l.
Proof. reflexivity. Qed.

Lemma eids_concat ll : eids (concat ll) = flat_map eids ll.
Proof. induction ll as [|l ll IH]; cbn; [reflexivity|]. rewrite eids_app, IH. reflexivity. Qed.

Lemma refs_leaf l : refs (leaf_ts l) = [].
Proof. destruct l as [[|] ? ?| | | | |]; reflexivity. Qed.

Lemma refs_array n a : incl (refs (array_ts n a)) (refs a).
Proof. unfold array_ts. destruct (Nat.ltb _ _); cbn [refs]; [apply incl_refl | apply flat_map_repeat_incl]. Qed.

Lemma refs_array_rev n a : (0 < n)%nat -> incl (refs a) (refs (array_ts n a)).
Proof.
  intros Hn. unfold array_ts. destruct (Nat.ltb _ _); cbn [refs]; [apply incl_refl|].
  destruct n; [lia|]. cbn. apply incl_appl, incl_refl.
Qed.

Lemma eid_not_named u : (forall id args, u <> RNamed id args) -> eid u = [].
Proof. intros H. destruct u; try reflexivity. exfalso. eapply H. reflexivity. Qed.

(* --- name(): used names = names of exportable pushed types ---------------------------------- *)
Lemma args_refs_incl ts l :
  Forall2 (fun x y => name_of x = Ok y) ts l ->
  Forall (fun t => forall a, name_of t = Ok a -> incl (refs a) (eids (t :: visit_generics t))) ts ->
  incl (flat_map refs l) (eids (flat_map (fun u => u :: visit_generics u) ts)).
Proof.
  induction 1 as [|x y ts l Hxy _ IHl]; intros IH; [apply incl_nil_l|].
  inversion IH as [|? ? H1 H2]; subst. cbn [flat_map]. rewrite eids_app.
  apply incl_app; [apply incl_appl; apply H1; exact Hxy | apply incl_appr; apply IHl; exact H2].
Qed.

Lemma push_unary u : incl (eids (u :: visit_generics u)) (eids (visit_generics u ++ [u])).
Proof.
  rewrite eids_cons, eids_app. cbn [eids flat_map]. rewrite app_nil_r.
  apply incl_app; [apply incl_appr | apply incl_appl]; apply incl_refl.
Qed.

Lemma push_binary_l k v : incl (eids (k :: visit_generics k)) (eids (visit_generics k ++ [k] ++ visit_generics v ++ [v])).
Proof.
  eapply incl_tran; [apply push_unary|]. rewrite (app_assoc (visit_generics k) [k]). rewrite (eids_app (visit_generics k ++ [k])).
  apply incl_appl, incl_refl.
Qed.

Lemma push_binary_r k v : incl (eids (v :: visit_generics v)) (eids (visit_generics k ++ [k] ++ visit_generics v ++ [v])).
Proof.
  eapply incl_tran; [apply push_unary|]. rewrite (app_assoc (visit_generics k) [k]). rewrite (eids_app (visit_generics k ++ [k])).
  apply incl_appr, incl_refl.
Qed.

Lemma name_refs_incl : forall t a, name_of t = Ok a -> incl (refs a) (eids (push t)).
Proof.
  unfold push.
  induction t as [l|t IH|t IH|n t IH|ts IH|k v IHk IHv|t IH|t e IHt IHe|t IH|id args IH|i|n] using rty_ind';
    cbn [Gen.name_of visit_generics]; intros a H; rewrite eids_cons.
  - inversion H. rewrite refs_leaf. apply incl_nil_l.
  - apply bind_ok in H as (x & Hx & H). inversion H. cbn [refs flat_map eid out_path app]. rewrite !app_nil_r.
    eapply incl_tran; [apply IH; exact Hx | apply push_unary].
  - apply bind_ok in H as (x & Hx & H). inversion H. cbn [refs eid out_path app].
    eapply incl_tran; [apply IH; exact Hx | apply push_unary].
  - destruct n as [|n']; [inversion H; apply incl_nil_l|].
    apply bind_ok in H as (x & Hx & H). inversion H. cbn [eid out_path app].
    eapply incl_tran; [apply refs_array|]. eapply incl_tran; [apply IH; exact Hx | apply push_unary].
  - apply bind_ok in H as (l & Hl & H). inversion H. cbn [refs eid out_path app].
    apply omap_list_ok in Hl. apply args_refs_incl; assumption.
  - apply bind_ok in H as (x & Hx & H). apply bind_ok in H as (y & Hy & H). inversion H. cbn [refs eid out_path app].
    apply incl_app.
    + eapply incl_tran; [apply IHk; exact Hx | apply push_binary_l].
    + eapply incl_tran; [apply IHv; exact Hy | apply push_binary_r].
  - cbn [eid out_path app]. eapply incl_tran; [apply IH; exact H | apply push_unary].
  - apply bind_ok in H as (x & Hx & H). apply bind_ok in H as (y & Hy & H). inversion H. cbn [refs eid out_path app].
    apply incl_app.
    + eapply incl_tran; [apply IHt; exact Hx | apply push_binary_l].
    + eapply incl_tran; [apply IHe; exact Hy | apply push_binary_r].
  - apply bind_ok in H as (x & Hx & H). inversion H. cbn [refs flat_map snd eid out_path app]. rewrite app_nil_r.
    assert (Hi : incl (refs x) (eids (visit_generics t ++ [t]))).
    { eapply incl_tran; [apply IH; exact Hx | apply push_unary]. }
    apply incl_app; exact Hi.
  - destruct (lookup R id) as [d|] eqn:Hlk; [|discriminate].
    apply bind_ok in H as (l & Hl & H). inversion H. cbn [refs]. unfold eid at 1. cbn [out_path ident_of]. rewrite Hlk. cbn [app].
    apply incl_cons; [left; reflexivity|]. apply incl_tl.
    apply omap_list_ok in Hl. apply args_refs_incl; assumption.
  - discriminate.
  - inversion H. apply incl_nil_l.
Qed.

(* what a derived type answers, against what its visit_dependencies() visits *)
Definition g_refs (g : dgen) (gd : ddeps) : Prop :=
  forall id d args r l, lookup R id = Some d -> g d args = Ok r -> gd d args = Ok l ->
    incl (refs (fst r)) (eids l) /\ forall x, snd r = Some x -> incl (refs x) (eids l).

Lemma lib_inline_refs g gd : g_refs g gd ->
  forall t a l, lib_inline g t = Ok a -> lib_vdeps gd t = Ok l -> incl (refs a) (eids l).
Proof.
  intros Hg.
  induction t as [lf|t IH|t IH|n t IH|ts IH|k v IHk IHv|t IH|t e IHt IHe|t IH|id args IH|i|n] using rty_ind';
    cbn [Gen.lib_inline Gen.lib_vdeps]; intros a l H Hd; try discriminate.
  - inversion H. rewrite refs_leaf. apply incl_nil_l.
  - apply bind_ok in H as (x & Hx & H). inversion H. cbn [refs flat_map]. rewrite !app_nil_r. eauto.
  - apply bind_ok in H as (x & Hx & H). inversion H. cbn [refs]. eauto.
  - destruct n as [|n']; [inversion H; apply incl_nil_l|].
    apply bind_ok in H as (x & Hx & H). inversion H. eapply incl_tran; [apply refs_array|]. eauto.
  - apply bind_ok in H as (x & Hx & H). apply bind_ok in H as (y & Hy & H). inversion H.
    apply bind_ok in Hd as (la & Hla & Hd). apply bind_ok in Hd as (lb & Hlb & Hd). inversion Hd.
    cbn [refs]. rewrite eids_app. apply incl_app; [apply incl_appl | apply incl_appr]; eauto.
  - eauto.
  - apply bind_ok in H as (x & Hx & H). apply bind_ok in H as (y & Hy & H). inversion H.
    apply bind_ok in Hd as (la & Hla & Hd). apply bind_ok in Hd as (lb & Hlb & Hd). inversion Hd.
    cbn [refs]. rewrite eids_app. apply incl_app; [apply incl_appl | apply incl_appr]; eauto.
  - destruct (lookup R id) as [d|] eqn:Hlk; [|discriminate].
    apply omap_ok in H as (r & Hr & ->). destruct (Hg _ _ _ _ _ Hlk Hr Hd) as [H1 _]. exact H1.
Qed.

Lemma lib_flat_refs g gd : g_refs g gd ->
  forall t a l, lib_flat g t = Ok a -> lib_vdeps gd t = Ok l -> incl (refs a) (eids l).
Proof.
  intros Hg.
  induction t as [lf|t IH|t IH|n t IH|ts IH|k v IHk IHv|t IH|t e IHt IHe|t IH|id args IH|i|n] using rty_ind';
    cbn [Gen.lib_flat Gen.lib_vdeps]; intros a l H Hd; try discriminate.
  - eauto.
  - destruct (lookup R id) as [d|] eqn:Hlk; [|discriminate].
    apply bind_ok in H as (r & Hr & H). destruct (Hg _ _ _ _ _ Hlk Hr Hd) as [_ H2].
    destruct (snd r) as [x|]; [|discriminate]. inversion H; subst. apply H2. reflexivity.
  - inversion H. apply incl_nil_l.
Qed.

(* ============================ derive layer ================================================== *)
Section Def.
Variable inl flt : rty -> outcome tsty.
Variable vdp : rty -> outcome (list rty).
Hypothesis Hinl : forall t a l, inl t = Ok a -> vdp t = Ok l -> incl (refs a) (eids l).
Hypothesis Hflt : forall t a l, flt t = Ok a -> vdp t = Ok l -> incl (refs a) (eids l).
Variable args : list rty.

Lemma value_refs fl a l : value_ty R inl args fl = Ok a -> value_deps vdp args fl = Ok l -> incl (refs a) (eids l).
Proof.
  unfold value_ty, value_deps. destruct (f_type fl).
  - intros H _; inversion H. apply incl_nil_l.
  - destruct (f_inline fl); intros H Hd; [eapply Hinl; eassumption|].
    inversion Hd. eapply name_refs_incl. exact H.
Qed.

(* one live field of a named shape: its property type (if it is not flattened) or its flattened
   type (if it is) refers only to what its dependency entry visits *)
Lemma prop_refs ra opt fl p l : is_flat fl = false ->
  prop_of is_alnum is_numeric R inl args ra opt fl = Ok p -> prop_deps vdp args opt fl = Ok l -> incl (refs (snd p)) (eids l).
Proof.
  unfold prop_of, prop_deps, is_flat. destruct (f_type fl) as [txt|].
  - intros _ H _; inversion H. apply incl_nil_l.
  - rewrite andb_true_r. intros Hnf H Hd. rewrite Hnf in Hd. cbn [orb] in Hd.
    apply bind_ok in H as (x & Hx & H). inversion H; subst. cbn [snd].
    destruct (f_inline fl); [eapply Hinl; eassumption|]. inversion Hd. eapply name_refs_incl. exact Hx.
Qed.

Lemma flat_refs opt fl a l : is_flat fl = true ->
  flt (field_ty args opt fl) = Ok a -> prop_deps vdp args opt fl = Ok l -> incl (refs a) (eids l).
Proof.
  unfold prop_deps, is_flat. destruct (f_type fl) as [txt|]; [rewrite andb_false_r; discriminate|].
  rewrite andb_true_r. intros Hf H Hd. rewrite Hf in Hd. cbn [orb] in Hd. eapply Hflt; eassumption.
Qed.

Lemma Forall2_in_l {A B} (P : A -> B -> Prop) l l' x : Forall2 P l l' -> In x l -> exists y, In y l' /\ P x y.
Proof.
  induction 1 as [|a b l l' Hab _ IH]; cbn; intros Hin; [contradiction|].
  destruct Hin as [->|Hin]; [exists b; split; [left; reflexivity|exact Hab]|].
  destruct (IH Hin) as (y & Hy & Hp). exists y. split; [right; exact Hy|exact Hp].
Qed.

(* a list of generated types drawn from a sublist of the fields, against the dependency entries of
   all the fields *)
Lemma sub_refs {A X} (f : A -> outcome X) (rf : X -> list str) (dp : A -> outcome (list rty)) (sub all : list A) xs ll :
  omap_list f sub = Ok xs -> omap_list dp all = Ok ll -> (forall x, In x sub -> In x all) ->
  (forall x a dl, In x sub -> f x = Ok a -> dp x = Ok dl -> incl (rf a) (eids dl)) ->
  incl (flat_map rf xs) (eids (concat ll)).
Proof.
  intros Hs Ha Hsub Hrel. apply omap_list_ok in Hs. apply omap_list_ok in Ha.
  rewrite eids_concat.
  induction Hs as [|x a sub xs Hxa _ IH]; cbn; [apply incl_nil_l|].
  apply incl_app.
  - destruct (Forall2_in_l _ _ _ x Ha (Hsub x (or_introl eq_refl))) as (dl & Hdl & Hdp).
    eapply incl_tran; [eapply Hrel; [left; reflexivity | exact Hxa | exact Hdp]|].
    apply (incl_flat_map_in eids dl ll Hdl).
  - apply IH; intros; [apply Hsub; right; assumption | eapply Hrel; [right|..]; eassumption].
Qed.

Definition r_refs (r : derived) (l : list rty) : Prop :=
  incl (refs (fst r)) (eids l) /\ forall x, snd r = Some x -> incl (refs x) (eids l).

Lemma r_refs_none a l : incl (refs a) (eids l) -> r_refs (a, None) l.
Proof. intros H; split; [exact H | discriminate]. Qed.

Lemma shape_refs ra opt tag s r l :
  shape_gen is_alnum is_numeric R inl flt args ra opt tag s = Ok r -> shape_deps vdp args opt s = Ok l -> r_refs r l.
Proof.
  unfold shape_gen, shape_deps. destruct s as [|fs|fs].
  - intros H _; inversion H. apply r_refs_none, incl_nil_l.
  - destruct fs as [|fl [|fl2 fs]].
    + intros H _; inversion H. apply r_refs_none, incl_nil_l.
    + destruct (f_skip fl).
      * intros H _; inversion H. apply r_refs_none, incl_nil_l.
      * intros H Hd. apply bind_ok in H as (x & Hx & H). inversion H. apply r_refs_none. eapply value_refs; eassumption.
    + intros H Hd. apply bind_ok in H as (xs & Hxs & H). inversion H. apply r_refs_none. cbn [refs].
      apply oconcat_ok in Hd as (ll & Hll & ->).
      eapply (sub_refs _ refs _ _ _ _ _ Hxs Hll); [auto|]. intros; eapply value_refs; eassumption.
  - intros H Hd. apply oconcat_ok in Hd as (ll & Hll & ->).
    assert (Hmain : forall r,
      bind (omap_list (prop_of is_alnum is_numeric R inl args ra opt) (filter (fun fl => negb (is_flat fl)) (live fs))) (fun props =>
      bind (omap_list (fun fl => flt (field_ty args opt fl)) (filter is_flat (live fs))) (fun flats =>
      let props := match tag with Some (t, n0) => (quoted_head t, TLit n0) :: props | None => props end in
      let obj := TObj OStruct props in
      match props, flats with
      | _, [] => Ok (TMerged obj, Some (TMerged obj))
      | [], [x] => Ok (TMerged (TUnwrap x), Some (TMerged (TInter flats)))
      | [], _ => Ok (TMerged (TInter flats), Some (TMerged (TInter flats)))
      | _, _ => Ok (TMerged (TInter (obj :: flats)), Some (TMerged (TInter (obj :: flats))))
      end)) = Ok r -> r_refs r (concat ll)).
    { clear r H. intros r H. apply bind_ok in H as (props & Hp & H). apply bind_ok in H as (flats & Hf & H).
      cbn zeta in H.
      assert (Hprops : incl (flat_map (fun p => refs (snd p)) props) (eids (concat ll))).
      { eapply (sub_refs _ (fun p => refs (snd p)) _ _ _ _ _ Hp Hll).
        - intros x Hx. eapply filter_incl_in; exact Hx.
        - intros x a dl Hx Ha Hdl. apply filter_In in Hx as [_ Hnf]. apply negb_true_iff in Hnf.
          eapply prop_refs; eassumption. }
      assert (Hflats : incl (flat_map refs flats) (eids (concat ll))).
      { eapply (sub_refs _ refs _ _ _ _ _ Hf Hll).
        - intros x Hx. eapply filter_incl_in; exact Hx.
        - intros x a dl Hx Ha Hdl. apply filter_In in Hx as [_ Hfl]. eapply flat_refs; eassumption. }
      set (props' := match tag with Some (t, n0) => (quoted_head t, TLit n0) :: props | None => props end) in *.
      assert (Hprops' : incl (flat_map (fun p => refs (snd p)) props') (eids (concat ll))).
      { subst props'. destruct tag as [[t n0]|]; cbn; exact Hprops. }
      clearbody props'.
      destruct props' as [|p ps]; destruct flats as [|x [|y fl']]; inversion H; subst; clear H;
        split; cbn [fst snd refs]; try (intros z Hz; inversion Hz; subst; clear Hz; cbn [refs]);
        cbn [flat_map refs] in *; rewrite ?app_nil_r in *; auto;
        try (apply incl_app; auto). }
    destruct fs as [|fl fs']; [destruct tag as [tg|]|]; try exact (Hmain r H).
    inversion H. apply r_refs_none, incl_nil_l.
Qed.

Lemma variant_refs a tg raf v x l :
  variant_gen is_upper is_alnum is_numeric R inl flt args a tg raf v = Ok x -> variant_deps vdp args v = Ok l ->
  incl (refs x) (eids l).
Proof.
  unfold variant_gen, variant_deps.
  intros H Hd. apply bind_ok in H as (vt & Hvt & H). apply bind_ok in H as (parsed & Hparsed & H).
  assert (Hp : incl (refs parsed) (eids l)).
  { destruct (v_as v) as [u|].
    - inversion Hd. eapply name_refs_incl. exact Hparsed.
    - destruct (v_type v).
      + inversion Hparsed. apply incl_nil_l.
      + inversion Hparsed; subst. cbn match in Hvt. destruct (shape_refs _ _ _ _ _ _ Hvt Hd) as [Hv1 _]. exact Hv1. }
  destruct (v_untagged v); [inversion H; subst; exact Hp|].
  destruct tg as [|t|t c|].
  - destruct (v_shape v) as [|fs|fs].
    + inversion H. apply incl_nil_l.
    + destruct (lone_field (STuple fs)) as [fl|]; [destruct (f_skip fl)|]; inversion H; cbn; rewrite ?app_nil_r; auto; apply incl_nil_l.
    + cbn in H. inversion H. cbn. rewrite app_nil_r. exact Hp.
  - destruct (snd vt); [inversion H; subst; exact Hp|].
    destruct (v_shape v) as [|fs|fs].
    + inversion H. apply incl_nil_l.
    + destruct (lone_field (STuple fs)) as [fl|]; [destruct (f_skip fl)|]; inversion H; cbn; rewrite ?app_nil_r; auto; apply incl_nil_l.
    + cbn in H. inversion H. cbn. rewrite app_nil_r. exact Hp.
  - destruct (v_shape v) as [|fs|fs].
    + inversion H. apply incl_nil_l.
    + destruct (lone_field (STuple fs)) as [fl|]; [destruct (f_skip fl)|]; inversion H; cbn; rewrite ?app_nil_r; auto; apply incl_nil_l.
    + cbn in H. inversion H. cbn. rewrite app_nil_r. exact Hp.
  - inversion H; subst; exact Hp.
Qed.

Lemma def_refs d r l :
  def_body is_upper is_alnum is_numeric R inl flt d args = Ok r -> def_deps vdp d args = Ok l -> r_refs r l.
Proof.
  unfold def_body, def_deps. intros H Hd. apply omap_ok in Hd as (l0 & Hl0 & ->).
  assert (Hweak : r_refs r l0 -> r_refs r (l0 ++ default_deps (attrs_of d) args)).
  { intros [H1 H2]. split; [|intros x Hx]; rewrite eids_app; apply incl_appl; auto. }
  apply Hweak. clear Hweak.
  destruct (c_type (attrs_of d)).
  - inversion H. apply r_refs_none, incl_nil_l.
  - destruct (c_as (attrs_of d)) as [u|].
    + apply bind_ok in H as (x & Hx & H). inversion H. apply r_refs_none. eapply Hinl; eassumption.
    + destruct d as [a s|a tg raf vs].
      * eapply shape_refs; eassumption.
      * destruct vs as [|v vs]; [inversion H; apply r_refs_none, incl_nil_l|].
        apply bind_ok in H as (xs & Hxs & H).
        apply oconcat_ok in Hl0 as (ll & Hll & ->).
        assert (Hall : incl (flat_map refs xs) (eids (concat ll))).
        { eapply (sub_refs _ refs _ _ _ _ _ Hxs Hll); [auto|]. intros; eapply variant_refs; eassumption. }
        destruct xs as [|x0 xs0]; inversion H; subst; [apply r_refs_none, incl_nil_l|].
        split; cbn [fst snd refs]; [exact Hall|]. intros x Hx; inversion Hx; subst. exact Hall.
Qed.
End Def.

(* ============================ the knot ===================================================== *)
Theorem gen_refs : forall fuel, g_refs (gen fuel) (deps fuel).
Proof.
  induction fuel as [|f IH]; intros id d args r l Hlk H Hd; [discriminate|].
  cbn [Gen.gen Gen.deps] in H, Hd. cbv zeta in H, Hd.
  eapply def_refs; [| |exact H|exact Hd].
  - apply lib_inline_refs. exact IH.
  - apply lib_flat_refs. exact IH.
Qed.

(* every type name used by the body of a declaration is the identifier of an exportable type among
   the declaration's dependencies *)
Theorem decl_refs_are_deps : forall fuel id d dc l,
  lookup R id = Some d ->
  decl_of is_upper is_alnum is_numeric R fuel d = Ok dc ->
  deps fuel d (dummies (attrs_of d)) = Ok l ->
  incl (refs (d_body dc)) (eids l).
Proof.
  intros fuel id d dc l Hlk H Hd. unfold decl_of in H.
  apply bind_ok in H as (r & Hr & H). apply bind_ok in H as (ps & Hps & H). inversion H; subst; clear H. cbn [d_body].
  destruct (gen_refs fuel id d _ r l Hlk Hr Hd) as [H1 _]. exact H1.
Qed.

End Refs.
