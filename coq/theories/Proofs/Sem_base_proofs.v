(* Infrastructure for the semantic theorems: "eventually a member" (membership for every
   sufficiently large fuel), its combinators, object membership from entry-wise facts, identity of the
   empty substitution. *)
From TsRs Require Import Base.Str Base.Outcome Model.TsAst Spec.TsFree Spec.TsSem.
From Coq Require Import List Lia Bool.
Import ListNotations.
Local Open Scope nat_scope.

(* ---- induction principle for the nested inductive tsty ------------------------------------- *)
Section TstyInd.
Variable P : tsty -> Prop.
Hypothesis Hprim : forall s, P (TPrim s).
Hypothesis Hvar : forall s, P (TVar s).
Hypothesis Hvarf : forall s, P (TVarF s).
Hypothesis Href : forall n args, Forall P args -> P (TRef n args).
Hypothesis Harray : forall t, P t -> P (TArray t).
Hypothesis Hneverarr : P TNeverArr.
Hypothesis Hrecnever : P TRecordNever.
Hypothesis Htuple : forall ts, Forall P ts -> P (TTuple ts).
Hypothesis Hobj : forall st ps, Forall (fun p => P (snd p)) ps -> P (TObj st ps).
Hypothesis Hmapped : forall k v, P k -> P v -> P (TMapped k v).
Hypothesis Hresult : forall k v, P k -> P v -> P (TResult k v).
Hypothesis Hunion : forall ts, Forall P ts -> P (TUnion ts).
Hypothesis Hinter : forall ts, Forall P ts -> P (TInter ts).
Hypothesis Hparen : forall t, P t -> P (TParen t).
Hypothesis Hlit : forall s, P (TLit s).
Hypothesis Hraw : forall s, P (TRaw s).
Hypothesis Hmerged : forall t, P t -> P (TMerged t).
Hypothesis Hunwrap : forall t, P t -> P (TUnwrap t).

Fixpoint tsty_ind' (t : tsty) : P t :=
  let fix all (l : list tsty) : Forall P l :=
    match l with [] => Forall_nil P | x :: r => Forall_cons x (tsty_ind' x) (all r) end in
  let fix allp (l : list (phead * tsty)) : Forall (fun p => P (snd p)) l :=
    match l with [] => Forall_nil _ | x :: r => Forall_cons x (tsty_ind' (snd x)) (allp r) end in
  match t with
  | TPrim s => Hprim s
  | TVar s => Hvar s
  | TVarF s => Hvarf s
  | TRef n args => Href n args (all args)
  | TArray t => Harray t (tsty_ind' t)
  | TNeverArr => Hneverarr
  | TRecordNever => Hrecnever
  | TTuple ts => Htuple ts (all ts)
  | TObj st ps => Hobj st ps (allp ps)
  | TMapped k v => Hmapped k v (tsty_ind' k) (tsty_ind' v)
  | TResult k v => Hresult k v (tsty_ind' k) (tsty_ind' v)
  | TUnion ts => Hunion ts (all ts)
  | TInter ts => Hinter ts (all ts)
  | TParen t => Hparen t (tsty_ind' t)
  | TLit s => Hlit s
  | TRaw s => Hraw s
  | TMerged t => Hmerged t (tsty_ind' t)
  | TUnwrap t => Hunwrap t (tsty_ind' t)
  end.
End TstyInd.

Lemma map_id_forall {A} (f : A -> A) l : Forall (fun x => f x = x) l -> map f l = l.
Proof. induction 1 as [|x l Hx _ IH]; cbn; [reflexivity | rewrite Hx, IH; reflexivity]. Qed.

(* substituting nothing changes nothing *)
Lemma tsubst_none t : tsubst (fun _ => None) (fun _ => None) t = t.
Proof.
  induction t using tsty_ind'; cbn [tsubst]; try reflexivity; try (f_equal; assumption);
    try (f_equal; apply map_id_forall; assumption); try congruence.
  f_equal. induction H as [|[h ty] ps Hp _ IH]; cbn; [reflexivity|]. cbn in Hp. rewrite Hp, IH. reflexivity.
Qed.

(* ---- eventually a member ---------------------------------------------------------------------- *)
Section Ev.
Variable E : denv.

Definition ev_mem (t : tsty) (j : json) : Prop := exists f0, forall f, f0 <= f -> memberb E f t j = true.

Lemma ev_step t j (body : nat -> bool) :
  (forall f, memberb E (S f) t j = body f) -> (exists f0, forall f, f0 <= f -> body f = true) -> ev_mem t j.
Proof.
  intros Heq [f0 H]. exists (S f0). intros f Hf. destruct f as [|f]; [lia|]. rewrite Heq. apply H. lia.
Qed.

Lemma ev_prim p j : prim_member p j = true -> ev_mem (TPrim p) j.
Proof. intros H. exists 1. intros [|f] Hf; [lia|]. exact H. Qed.

Lemma ev_lit s : ev_mem (TLit s) (JStr s).
Proof.
  exists 1. intros [|f] Hf; [lia|]. cbn. clear. induction s as [|c s IH]; cbn; [reflexivity|]. rewrite N.eqb_refl. exact IH.
Qed.

Lemma ev_transparent (wrap : tsty -> tsty) t j :
  (forall f, memberb E (S f) (wrap t) j = memberb E f t j) -> ev_mem t j -> ev_mem (wrap t) j.
Proof. intros Hw Ht. eapply ev_step; [exact Hw | exact Ht]. Qed.

Lemma ev_paren t j : ev_mem t j -> ev_mem (TParen t) j.
Proof. apply ev_transparent. reflexivity. Qed.
Lemma ev_merged t j : ev_mem t j -> ev_mem (TMerged t) j.
Proof. apply ev_transparent. reflexivity. Qed.
Lemma ev_unwrap t j : ev_mem t j -> ev_mem (TUnwrap t) j.
Proof. apply ev_transparent. reflexivity. Qed.

Lemma existsb_in {A} (p : A -> bool) x l : In x l -> p x = true -> existsb p l = true.
Proof. intros Hin Hp. apply existsb_exists. eauto. Qed.

Lemma ev_union ts t j : In t ts -> ev_mem t j -> ev_mem (TUnion ts) j.
Proof.
  intros Hin [f0 H]. exists (S f0). intros [|f] Hf; [lia|]. cbn [memberb]. eapply existsb_in; [exact Hin|]. apply H. lia.
Qed.

Lemma ev_array t l : Forall (ev_mem t) l -> ev_mem (TArray t) (JArr l).
Proof.
  intros Hall.
  assert (Hb : exists f0, forall f, f0 <= f -> forallb (memberb E f t) l = true).
  { induction Hall as [|x l [fx Hx] _ [fl Hl]]; [exists 0; reflexivity|].
    exists (Nat.max fx fl). intros f Hf. cbn. rewrite Hx by lia. rewrite Hl by lia. reflexivity. }
  destruct Hb as [f0 H]. exists (S f0). intros [|f] Hf; [lia|]. cbn [memberb]. apply H. lia.
Qed.

Lemma ev_tuple ts l : Forall2 ev_mem ts l -> ev_mem (TTuple ts) (JArr l).
Proof.
  intros Hall.
  assert (Hb : exists f0, forall f, f0 <= f -> forall2b (memberb E f) ts l = true).
  { induction Hall as [|t x ts l [fx Hx] _ [fl Hl]]; [exists 0; reflexivity|].
    exists (Nat.max fx fl). intros f Hf. cbn. rewrite Hx by lia. rewrite Hl by lia. reflexivity. }
  destruct Hb as [f0 H]. exists (S f0). intros [|f] Hf; [lia|]. cbn [memberb]. apply H. lia.
Qed.

(* a reference to a declaration without parameters denotes its body *)
Lemma ev_ref n d j : dlookup E n = Some d -> d_params d = [] -> ev_mem (d_body d) j -> ev_mem (TRef n []) j.
Proof.
  intros Hl Hp [f0 H]. exists (S f0). intros [|f] Hf; [lia|]. cbn [memberb]. unfold unfold_ref. rewrite Hl, Hp.
  cbn [bind_params]. rewrite tsubst_none. apply H. lia.
Qed.

(* ---- objects ------------------------------------------------------------------------------------ *)
Lemma assoc_in {A} k (l : list (str * A)) v : assoc k l = Some v -> In (k, v) l.
Proof.
  induction l as [|[x y] l IH]; cbn; [discriminate|]. destruct (str_eqb x k) eqn:Ek.
  - intros H; inversion H; subst. left. f_equal. clear -Ek. revert k Ek. induction x as [|c x IHx]; destruct k as [|d k]; cbn; intros H; try discriminate; [reflexivity|].
    apply andb_true_iff in H as [H1 H2]. apply N.eqb_eq in H1. subst. f_equal. apply IHx. exact H2.
  - intros H. right. apply IH. exact H.
Qed.

Lemma str_eqb_refl' s : str_eqb s s = true.
Proof. induction s as [|c s IH]; cbn; [reflexivity|]. rewrite N.eqb_refl. exact IH. Qed.

Lemma str_eqb_true a b : str_eqb a b = true -> a = b.
Proof.
  revert b; induction a as [|c a IH]; destruct b as [|d b]; cbn; intros H; try discriminate; [reflexivity|].
  apply andb_true_iff in H as [H1 H2]. apply N.eqb_eq in H1. subst. f_equal. apply IH. exact H2.
Qed.

Lemma assoc_none_notin {A} k (l : list (str * A)) : assoc k l = None -> forall v, ~ In (k, v) l.
Proof.
  induction l as [|[x y] l IH]; cbn; intros H v; [tauto|]. destruct (str_eqb x k) eqn:Ek; [discriminate|].
  intros [Heq|Hin]; [inversion Heq; subst; rewrite str_eqb_refl' in Ek; discriminate | eapply IH; eassumption].
Qed.

Lemma assoc_some_of_in {A} k v (l : list (str * A)) : In (k, v) l -> exists v', assoc k l = Some v'.
Proof.
  induction l as [|[x y] l IH]; cbn; [tauto|]. intros [Heq|Hin].
  - inversion Heq; subst. rewrite str_eqb_refl'. eauto.
  - destruct (str_eqb x k); [eauto | apply IH; exact Hin].
Qed.

(* with distinct keys, an association list holds one value per key *)
Lemma nodup_keys_unique {A} (l : list (str * A)) k v v' : NoDup (map fst l) -> In (k, v) l -> In (k, v') l -> v = v'.
Proof.
  induction l as [|[x y] l IH]; cbn; intros Hnd Hv Hv'; [tauto|]. inversion Hnd as [|? ? Hnin Hnd']; subst.
  destruct Hv as [Hv|Hv]; destruct Hv' as [Hv'|Hv'].
  - congruence.
  - inversion Hv; subst. exfalso. apply Hnin. apply in_map_iff. exists (k, v'). split; [reflexivity|exact Hv'].
  - inversion Hv'; subst. exfalso. apply Hnin. apply in_map_iff. exists (k, v). split; [reflexivity|exact Hv].
  - eapply IH; eassumption.
Qed.

(* an object is a member of an exact object type when: every entry has a property of its name whose
   type it inhabits, every required property has an entry, and the property names are distinct *)
Lemma ev_obj st (props : list (phead * tsty)) (entries : list (str * json)) :
  NoDup (map (fun p => p_key (fst p)) props) ->
  (forall k j, In (k, j) entries -> exists p t, In (p, t) props /\ p_key p = k /\ ev_mem t j) ->
  (forall p t, In (p, t) props -> p_optional p = false -> exists j, In (p_key p, j) entries) ->
  ev_mem (TObj st props) (JObj entries).
Proof.
  intros Hnd Hent Hreq.
  (* a uniform fuel for all entries *)
  assert (Hb : exists f0, forall f, f0 <= f -> forall k j, In (k, j) entries ->
               exists p t, In (p, t) props /\ p_key p = k /\ memberb E f t j = true).
  { clear Hreq. induction entries as [|[k j] es IH].
    - exists 0. intros f _ k j [].
    - destruct IH as [fe He]; [intros; apply Hent; right; assumption|].
      destruct (Hent k j (or_introl eq_refl)) as (p & t & Hin & Hk & [fp Hp]).
      exists (Nat.max fe fp). intros f Hf k' j' [Heq|Hin'].
      + inversion Heq; subst. exists p, t. repeat split; [exact Hin|]. apply Hp. lia.
      + apply He; [lia | exact Hin']. }
  destruct Hb as [f0 Hb]. exists (S f0). intros [|f] Hf; [lia|]. cbn [memberb]. unfold alt_member. cbn [fst snd].
  apply andb_true_iff. split.
  - apply forallb_forall. intros [p t] Hin. cbn [fst snd].
    destruct (assoc (p_key p) entries) as [v|] eqn:Ea.
    + apply assoc_in in Ea. destruct (Hb f ltac:(lia) _ _ Ea) as (p' & t' & Hin' & Hk & Hm).
      assert (Ht : t' = t).
      { (* same key => same property *)
        assert (Hl : forall (q : phead) (u : tsty), In (q, u) props -> In (p_key q, u) (map (fun x => (p_key (fst x), snd x)) props)).
        { intros q u Hq. apply in_map_iff. exists (q, u). split; [reflexivity | exact Hq]. }
        eapply (nodup_keys_unique (map (fun x => (p_key (fst x), snd x)) props) (p_key p)).
        - rewrite map_map. cbn [fst]. exact Hnd.
        - rewrite <- Hk. apply Hl. exact Hin'.
        - apply Hl. exact Hin. }
      subst t'. exact Hm.
    + destruct (p_optional p) eqn:Eo; [reflexivity|]. exfalso.
      destruct (Hreq p t Hin Eo) as [j Hj]. eapply assoc_none_notin; eassumption.
  - apply forallb_forall. intros [k j] Hin. cbn [fst snd].
    destruct (Hb f ltac:(lia) _ _ Hin) as (p & t & Hp & Hk & _).
    assert (Hex : exists v, assoc k (map (fun p0 => (p_key (fst p0), snd p0)) props) = Some v).
    { eapply assoc_some_of_in. apply in_map_iff. exists (p, t). split; [cbn; rewrite Hk; reflexivity | exact Hp]. }
    destruct Hex as [v ->]. reflexivity.
Qed.

Lemma ev_mapped k v entries :
  (forall key j, In (key, j) entries -> key_ok k key = true /\ ev_mem v j) -> ev_mem (TMapped k v) (JObj entries).
Proof.
  intros H.
  assert (Hb : exists f0, forall f, f0 <= f -> forallb (fun e => key_ok k (fst e) && memberb E f v (snd e)) entries = true).
  { induction entries as [|[key j] es IH]; [exists 0; reflexivity|].
    destruct IH as [fe He]; [intros; apply H; right; assumption|].
    destruct (H key j (or_introl eq_refl)) as [Hk [fj Hj]].
    exists (Nat.max fe fj). intros f Hf. cbn [forallb fst snd]. rewrite Hk, Hj by lia. cbn. apply He. lia. }
  destruct Hb as [f0 Hb]. exists (S f0). intros [|f] Hf; [lia|]. cbn [memberb]. unfold alt_member. cbn [fst snd forallb map andb].
  specialize (Hb f ltac:(lia)). clear -Hb. induction entries as [|[key j] es IH]; [reflexivity|].
  cbn [forallb fst snd assoc] in *. apply andb_true_iff in Hb as [H1 H2]. rewrite H1. cbn. apply IH. exact H2.
Qed.

Lemma ev_result_ok a b x : ev_mem a x -> ev_mem (TResult a b) (JObj [(lit "Ok", x)]).
Proof.
  intros [f0 H]. exists (S f0). intros [|f] Hf; [lia|]. cbn [memberb].
  change (s_eq "Ok" (lit "Ok")) with true. cbn [andb]. rewrite H by lia. reflexivity.
Qed.
Lemma ev_result_err a b x : ev_mem b x -> ev_mem (TResult a b) (JObj [(lit "Err", x)]).
Proof.
  intros [f0 H]. exists (S f0). intros [|f] Hf; [lia|]. cbn [memberb].
  change (s_eq "Ok" (lit "Err")) with false. change (s_eq "Err" (lit "Err")) with true. cbn [andb orb]. rewrite H by lia. reflexivity.
Qed.

End Ev.
