(* C04: what the derive builds is a checked syntax tree.  For every environment of definitions whose
   names are clean (Spec/GenClean.v: `clean_envb`, a boolean), every definition of it, every fuel: if
   decl() answers at all, the declaration passes `decl_ok` (Spec/TsSyn.v), the hypothesis of
   `decl_in_grammar` — so its text is derivable in the grammar of Spec/TsGrammar.v.
   Structure: a boolean shape `gshape` closed under everything the generator builds (syn_ok plus the
   merge marker around a struct object); library layer by induction on the Rust type, derive layer by case
   analysis, knot by induction on the fuel; `gshape` implies the check by induction on the tree. *)
From TsRs Require Import Base.Str Base.Outcome Gen.Tables Model.Case Model.TsAst Model.Rust Model.Docs Model.Gen
  Spec.RtyInd Spec.TsGrammar Spec.TsSyn Spec.TsFree Spec.TsSem Spec.GenClean
  Model.Path Model.Merge Model.MergeSpec Model.GenExport Proofs.Gen_base_proofs Proofs.Sem_base_proofs Proofs.Docs_proofs Proofs.Grammar_proofs Proofs.Grammar_export_proofs Proofs.Path_clean_proofs Proofs.Merge_text_proofs.
From Coq Require Import List NArith Bool Lia.
Import ListNotations.
Open Scope N_scope.

Section S.
Variable is_upper is_alnum is_numeric : char -> bool.
Hypothesis Hcls : classes_ok is_alnum is_numeric = true.

Notation syn_ok := (syn_ok is_alnum is_numeric).
Notation gshape := (gshape is_alnum is_numeric).
Notation head_okb := (head_okb is_alnum is_numeric).
Notation type_nameb := (type_nameb is_alnum is_numeric).
Notation decl_nameb := (decl_nameb is_alnum is_numeric).
Notation identb := (identb is_alnum is_numeric).

(* ---- the shape implies the check ---------------------------------------------------------------- *)
Lemma map_print_norm l :
  Forall (fun t => gshape t = true -> print (norm t) = print t /\ syn_ok (norm t) = true) l ->
  forallb gshape l = true -> map print (map norm l) = map print l /\ forallb syn_ok (map norm l) = true.
Proof.
  induction 1 as [|x l Hx _ IH]; cbn [forallb map]; intros H; [split; reflexivity|].
  apply andb_true_iff in H as [H1 H2]. destruct (Hx H1) as [Hp Hs]. destruct (IH H2) as [Hpl Hsl].
  rewrite Hp, Hpl, Hs, Hsl. split; reflexivity.
Qed.

Lemma props_print_norm ps :
  Forall (fun p : phead * tsty => gshape (snd p) = true -> print (norm (snd p)) = print (snd p) /\ syn_ok (norm (snd p)) = true) ps ->
  forallb (fun p => head_okb (fst p) && gshape (snd p)) ps = true ->
  map (fun p : phead * tsty => (fst p, print (snd p))) (map (fun p => (fst p, norm (snd p))) ps) = map (fun p => (fst p, print (snd p))) ps /\
  forallb (fun p => head_okb (fst p) && syn_ok (snd p)) (map (fun p => (fst p, norm (snd p))) ps) = true.
Proof.
  induction 1 as [|[h t] l Hx _ IH]; cbn [forallb map fst snd]; intros H; [split; reflexivity|].
  apply andb_true_iff in H as [H1 H2]. apply andb_true_iff in H1 as [Hh Ht]. cbn [snd] in Hx. destruct (Hx Ht) as [Hp Hs]. destruct (IH H2) as [Hpl Hsl].
  rewrite Hp, Hpl, Hs, Hsl, Hh. split; reflexivity.
Qed.

(* the text of an object depends on its properties through their heads and the texts of their types *)
Lemma print_obj_ext st ps qs :
  map (fun p : phead * tsty => (fst p, print (snd p))) ps = map (fun p => (fst p, print (snd p))) qs ->
  print (TObj st ps) = print (TObj st qs).
Proof.
  intros H. destruct st; cbn [print]; do 2 f_equal.
  - f_equal. revert qs H. induction ps as [|p ps IH]; intros [|q qs] H; cbn [map] in *; try discriminate; [reflexivity|].
    inversion H as [[H1 H2 H3]]. rewrite H1, H2. f_equal. apply IH. exact H3.
  - f_equal. revert qs H. induction ps as [|p ps IH]; intros [|q qs] H; cbn [map] in *; try discriminate; [reflexivity|].
    inversion H as [[H1 H2 H3]]. rewrite H1, H2. f_equal. apply IH. exact H3.
Qed.

Lemma print_ref_ext n l l' : map print l = map print l' -> print (TRef n l) = print (TRef n l').
Proof.
  intros H. destruct l as [|x l], l' as [|y l']; cbn [map] in H; try discriminate; [reflexivity|].
  change (print (TRef n (x :: l))) with (n ++ lit "<" ++ join (lit ", ") (map print (x :: l)) ++ lit ">").
  change (print (TRef n (y :: l'))) with (n ++ lit "<" ++ join (lit ", ") (map print (y :: l')) ++ lit ">").
  cbn [map]. rewrite H. reflexivity.
Qed.

Lemma map_nil_iff {A B} (f : A -> B) l : is_nil (map f l) = is_nil l.
Proof. destruct l; reflexivity. Qed.

(* ---- flattened struct objects ---- *)
Definition sobj0 (t : tsty) : bool := match t with TObj OStruct (_ :: _) => true | _ => false end.

Lemma norm_sobj x : is_sobj x = true -> sobj0 (norm x) = true.
Proof.
  destruct x as [| | | | | | | |st ps| | | | | | | |u|]; try discriminate.
  - destruct st; [|discriminate]. destruct ps; [discriminate|]. reflexivity.
  - destruct u as [| | | | | | | |st ps| | | | | | | | |]; try discriminate. destruct st; [|discriminate]. destruct ps; [discriminate|]. reflexivity.
Qed.

Definition op0 (t : tsty) : bool := sobj0 t || is_paren t.

Lemma flat_inter_sobj L : forallb op0 L = true -> flat_inter L = L.
Proof.
  induction L as [|x L IH]; [reflexivity|]. cbn [forallb]. intros H. apply andb_true_iff in H as [H1 H2].
  unfold flat_inter in *. cbn [flat_map]. rewrite (IH H2). destruct x; try discriminate; reflexivity.
Qed.

Lemma okop_paren u : okop (TParen u).
Proof.
  cbn [okop print]. split; [reflexivity|]. split.
  - change (lit "(" ++ print u ++ lit ")") with ((40 :: print u) ++ 41 :: []). rewrite ends_with_app_notin; [reflexivity|].
    intros [H|[H|[]]]; discriminate H.
  - change (lit "(" ++ print u ++ lit ")") with (40 :: print u ++ [41]). cbn [length]. rewrite app_length. cbn [length]. lia.
Qed.

Lemma sobj0_okop L : forallb op0 L = true -> Forall okop L.
Proof.
  induction L as [|x L IH]; cbn [forallb]; intros H; constructor; apply andb_true_iff in H as [H1 H2]; [|exact (IH H2)].
  destruct x as [| | | | | | | |st ps| | | | |u| | | |]; try discriminate; [|apply okop_paren]. destruct st; [|discriminate]. destruct ps; [discriminate|]. cbn. discriminate.
Qed.

(* merging neighbours keeps every operand checked *)
Lemma merge_from_syn : forall rest cur, forallb syn_ok (cur :: rest) = true -> forallb syn_ok (merge_from cur rest) = true.
Proof.
  induction rest as [|x r IH]; intros cur H; [exact H|]. cbn [forallb] in H. apply andb_true_iff in H as [Hc H]. apply andb_true_iff in H as [Hx Hr].
  assert (Hdef : forallb syn_ok (cur :: merge_from x r) = true) by (cbn [forallb]; rewrite Hc; apply IH; cbn [forallb]; rewrite Hx, Hr; reflexivity).
  cbn [merge_from]. destruct cur as [| | | | | | | |st ps| | | | | | | | |]; try exact Hdef. destruct st; [|exact Hdef].
  destruct x as [| | | | | | | |st qs| | | | | | | | |]; try exact Hdef. destruct st; [|exact Hdef].
  apply IH. cbn [forallb]. rewrite Hr, andb_true_r. cbn [TsSyn.syn_ok] in Hc, Hx |- *. rewrite forallb_app, Hc, Hx. reflexivity.
Qed.

Lemma merge_all_objects : forall rest cur, sobj0 cur = true -> forallb sobj0 rest = true -> forallb syn_ok (cur :: rest) = true ->
  exists qs, merge_from cur rest = [TObj OStruct qs] /\ syn_ok (TObj OStruct qs) = true.
Proof.
  induction rest as [|x r IH]; intros cur Hc Hr Hs.
  - destruct cur as [| | | | | | | |st ps| | | | | | | | |]; try discriminate. destruct st; [|discriminate]. exists ps. split; [reflexivity|].
    cbn [forallb] in Hs. rewrite andb_true_r in Hs. exact Hs.
  - cbn [forallb] in Hr, Hs. apply andb_true_iff in Hr as [Hx Hr]. apply andb_true_iff in Hs as [Hs1 Hs]. apply andb_true_iff in Hs as [Hs2 Hs3].
    destruct cur as [| | | | | | | |st ps| | | | | | | | |]; try discriminate. destruct st; [|discriminate].
    destruct x as [| | | | | | | |st qs| | | | | | | | |]; try discriminate. destruct st; [|discriminate].
    cbn [merge_from]. apply IH; [destruct ps; [discriminate | reflexivity] | exact Hr|].
    cbn [forallb]. rewrite Hs3, andb_true_r. cbn [TsSyn.syn_ok] in Hs1, Hs2 |- *. rewrite forallb_app, Hs1, Hs2. reflexivity.
Qed.

Lemma unwrap_obj ps : unwrap_text (print (TObj OStruct ps)) = print (TObj OStruct ps).
Proof.
  rewrite print_sobj. unfold unwrap_text. cbn [app starts_with]. change (40 =? 123) with false. cbn [andb].
  unfold trim_chars. cbn [trim_start_chars]. change (is_sp_ws 123) with false. cbv iota.
  unfold trim_end_chars. change (123 :: 32 :: sbody ps ++ [32; 125]) with ([123; 32] ++ sbody ps ++ [32; 125]).
  rewrite !rev_app_distr. cbn [rev app trim_start_chars]. change (is_sp_ws 125) with false. cbv iota.
  change (125 :: 32 :: rev (sbody ps) ++ [32; 123]) with (rev [32; 125] ++ rev (sbody ps) ++ rev [123; 32]).
  rewrite <- !rev_app_distr, rev_involutive, <- app_assoc. reflexivity.
Qed.

Definition Q (t : tsty) : Prop := gshape t = true -> print (norm t) = print t /\ syn_ok (norm t) = true.
Definition P (t : tsty) : Prop := Q t /\ match t with TInter l => Forall Q l | TUnwrap x => Q x | _ => True end.

Lemma PQ l : Forall P l -> Forall Q l.
Proof. apply Forall_impl. intros t H. exact (proj1 H). Qed.
Lemma PQp (ps : list (phead * tsty)) : Forall (fun p => P (snd p)) ps -> Forall (fun p => Q (snd p)) ps.
Proof. apply Forall_impl. intros t H. exact (proj1 H). Qed.

Lemma norm_op x : (is_sobj x || is_paren x) = true -> op0 (norm x) = true.
Proof.
  intros H. apply orb_true_iff in H as [H|H]; unfold op0; [rewrite (norm_sobj x H); reflexivity|].
  destruct x; try discriminate H. cbn [norm is_paren]. apply orb_true_r.
Qed.

Lemma sobj_facts l : forallb (fun x => (is_sobj x || is_paren x) && gshape x) l = true -> Forall Q l ->
  forallb op0 (map norm l) = true /\ map print (map norm l) = map print l /\ forallb syn_ok (map norm l) = true.
Proof.
  intros H HQ. revert H. induction HQ as [|x l Hx _ IH]; cbn [forallb map]; intros H; [repeat split; reflexivity|].
  apply andb_true_iff in H as [H1 H2]. apply andb_true_iff in H1 as [Hs Hg]. destruct (Hx Hg) as [Hp Hsy]. destruct (IH H2) as (I1 & I2 & I3).
  rewrite (norm_op x Hs), I1, Hp, I2, Hsy, I3. repeat split; reflexivity.
Qed.

Lemma merged_inter l : l <> [] -> forallb (fun x => (is_sobj x || is_paren x) && gshape x) l = true -> Forall Q l ->
  print (norm (TMerged (TInter l))) = print (TMerged (TInter l)) /\ syn_ok (norm (TMerged (TInter l))) = true.
Proof.
  intros Hne H HQ. destruct (sobj_facts l H HQ) as (Hs & Hp & Hsy).
  change (norm (TMerged (TInter l))) with (inter_of (merge_adjacent (flat_inter (map norm l)))). rewrite (flat_inter_sobj _ Hs).
  assert (HL : map norm l <> []) by (destruct l; [contradiction | discriminate]).
  split.
  - rewrite <- (glue_is_structural_merge _ HL (sobj0_okop _ Hs)).
    change (print (TMerged (TInter (map norm l)))) with (glue (map print (map norm l))). rewrite Hp. reflexivity.
  - destruct (map norm l) as [|c r]; [contradiction|]. cbn [merge_adjacent]. pose proof (merge_from_syn r c Hsy) as Hm.
    unfold inter_of. destruct (merge_from c r) as [|y [|z m]] eqn:Em.
    + exfalso. exact (merge_from_nonempty c r Em).
    + cbn [forallb] in Hm. rewrite andb_true_r in Hm. exact Hm.
    + cbn [TsSyn.syn_ok is_nil negb andb]. exact Hm.
Qed.

Lemma merged_unwrap x : is_sobj x = true -> gshape x = true -> Q x ->
  print (norm (TMerged (TUnwrap x))) = print (TMerged (TUnwrap x)) /\ syn_ok (norm (TMerged (TUnwrap x))) = true.
Proof.
  intros Hs Hg HQ. destruct (HQ Hg) as [Hp Hsy]. pose proof (norm_sobj x Hs) as Hn.
  change (norm (TMerged (TUnwrap x))) with (match (match norm x with TParen v => v | u' => u' end) with TInter l => inter_of (merge_adjacent (flat_inter l)) | u' => u' end).
  change (print (TMerged (TUnwrap x))) with (unwrap_text (print x)).
  destruct (norm x) as [| | | | | | | |st ps| | | | | | | | |]; try discriminate. destruct st; [|discriminate].
  split; [|exact Hsy]. rewrite <- Hp. symmetry. apply unwrap_obj.
Qed.

Theorem gshape_checked_strong : forall t, P t.
Proof.
  induction t as [n|n|n|n args IH|u IH| | |ts IH|st ps IH|k v IHk IHv|a b IHa IHb|ts IH|ts IH|u IH|l|r|u IH|u IH] using tsty_ind';
    (split; [unfold Q; cbn [GenClean.gshape]; intros H; try discriminate | try exact I]).
  - split; [reflexivity | exact H].
  - split; [reflexivity | exact H].
  - split; [reflexivity | exact H].
  - apply andb_true_iff in H as [Hn Ha]. destruct (map_print_norm _ (PQ _ IH) Ha) as [Hp Hs]. cbn [norm TsSyn.syn_ok]. split.
    + apply print_ref_ext. exact Hp.
    + rewrite Hn, Hs. reflexivity.
  - destruct (proj1 IH H) as [Hp Hs]. cbn [norm print TsSyn.syn_ok]. rewrite Hp. split; [reflexivity | exact Hs].
  - split; reflexivity.
  - split; reflexivity.
  - destruct (map_print_norm _ (PQ _ IH) H) as [Hp Hs]. cbn [norm print TsSyn.syn_ok]. rewrite Hp. split; [reflexivity | exact Hs].
  - destruct (props_print_norm _ (PQp _ IH) H) as [Hp Hs]. cbn [norm TsSyn.syn_ok]. split; [apply print_obj_ext; exact Hp | exact Hs].
  - apply andb_true_iff in H as [H1 H2]. destruct (proj1 IHk H1) as [Hp1 Hs1]. destruct (proj1 IHv H2) as [Hp2 Hs2].
    cbn [norm print TsSyn.syn_ok]. rewrite Hp1, Hp2, Hs1, Hs2. split; reflexivity.
  - apply andb_true_iff in H as [H1 H2]. destruct (proj1 IHa H1) as [Hp1 Hs1]. destruct (proj1 IHb H2) as [Hp2 Hs2].
    cbn [norm print TsSyn.syn_ok]. rewrite Hp1, Hp2, Hs1, Hs2. split; reflexivity.
  - apply andb_true_iff in H as [H1 H2]. destruct (map_print_norm _ (PQ _ IH) H2) as [Hp Hs]. cbn [norm print TsSyn.syn_ok].
    rewrite Hp, Hs, map_nil_iff, H1. split; reflexivity.
  - apply andb_true_iff in H as [H1 H2]. destruct (map_print_norm _ (PQ _ IH) H2) as [Hp Hs]. cbn [norm print TsSyn.syn_ok].
    rewrite Hp, Hs, map_nil_iff, H1. split; reflexivity.
  - exact (PQ _ IH).
  - destruct (proj1 IH H) as [Hp Hs]. cbn [norm print TsSyn.syn_ok]. rewrite Hp. split; [reflexivity | exact Hs].
  - split; [reflexivity | exact H].
  - (* the merge marker *)
    destruct u as [| | | | | | | |st ps| | | |ts| | | | |x]; try discriminate.
    + destruct (proj1 IH H) as [Hp Hs]. cbn [norm] in Hp, Hs |- *. cbn [print] in Hp |- *. split; [exact Hp | exact Hs].
    + apply andb_true_iff in H as [Hne Ha]. apply merged_inter; [destruct ts; [discriminate | discriminate] | exact Ha | exact (proj2 IH)].
    + apply andb_true_iff in H as [Hs Hg]. apply merged_unwrap; [exact Hs | exact Hg | exact (proj2 IH)].
  - exact (proj1 IH).
Qed.

Theorem gshape_checked : forall t, gshape t = true -> print (norm t) = print t /\ syn_ok (norm t) = true.
Proof. intros t. exact (proj1 (gshape_checked_strong t)). Qed.

Corollary gshape_syn_okn t : gshape t = true -> syn_okn is_alnum is_numeric t = true.
Proof.
  intros H. destruct (gshape_checked t H) as [Hp Hs]. unfold syn_okn, norm_ok. rewrite Hp, Hs.
  rewrite str_eqb_refl. apply orb_true_r.
Qed.

(* ---- names and heads --------------------------------------------------------------------------- *)
Lemma word_identb w : ascii_word w = true -> identb w = true.
Proof.
  intros H. destruct (ascii_word_ident is_alnum is_numeric Hcls w H) as [H1 H2]. unfold TsSyn.identb. rewrite H1.
  destruct w as [|c r]; [contradiction|]. rewrite H2. reflexivity.
Qed.
Lemma word_type_nameb w : ascii_word w = true -> reserved w = false -> type_nameb w = true.
Proof. intros H Hr. unfold TsSyn.type_nameb. rewrite (word_identb w H), Hr. reflexivity. Qed.
Lemma null_type_nameb : type_nameb (lit "null"%string) = true.
Proof. unfold TsSyn.type_nameb. apply orb_true_iff. right. reflexivity. Qed.
Lemma decl_type_nameb n : decl_nameb n = true -> type_nameb n = true.
Proof.
  unfold TsSyn.decl_nameb, TsSyn.type_nameb. intros H. apply andb_true_iff in H as [H _]. rewrite H. reflexivity.
Qed.

Lemma forallb_rev {A} (f : A -> bool) l : forallb f (rev l) = forallb f l.
Proof.
  induction l as [|x l IH]; [reflexivity|]. cbn [rev forallb]. rewrite forallb_app, IH. cbn [forallb]. rewrite andb_true_r. apply andb_comm.
Qed.
Lemma quotedb_wrap t : cleanb t = true -> quotedb ([34] ++ t ++ [34]) = true.
Proof.
  intros H. cbn [app]. unfold quotedb. rewrite N.eqb_refl. cbn [andb]. rewrite rev_app_distr. cbn [rev app]. rewrite N.eqb_refl. cbn [andb].
  unfold cleanb in *. rewrite forallb_rev. exact H.
Qed.
Lemma quoted_head_ok t : cleanb t = true -> head_okb (quoted_head t) = true.
Proof. intros H. unfold TsSyn.head_okb, quoted_head. cbn [p_text p_docs]. rewrite (quotedb_wrap t H). rewrite orb_true_r. reflexivity. Qed.
Lemma plain_head_ok w : ascii_word w = true -> head_okb (plain_head w) = true.
Proof. intros H. unfold TsSyn.head_okb, plain_head. cbn [p_text p_docs]. rewrite (word_identb w H). reflexivity. Qed.

Lemma raw_head_ok key : key_okb key = true ->
  identb (raw_name_to_ts_field is_alnum is_numeric key) || quotedb (raw_name_to_ts_field is_alnum is_numeric key) = true.
Proof.
  unfold key_okb. intros Hk. apply andb_true_iff in Hk as [Hne Hc]. unfold raw_name_to_ts_field.
  destruct (forallb (fun c => is_alnum c || (c =? 95) || (c =? 36)) key && match key with [] => true | c :: _ => negb (is_numeric c) end) eqn:E.
  - apply orb_true_iff. left. destruct key as [|c r]; [discriminate Hne|]. exact E.
  - apply orb_true_iff. right. apply quotedb_wrap. exact Hc.
Qed.

(* ---- documentation always renders as one comment block ------------------------------------------ *)
Lemma no_close_cons c t : no_close (c :: t) = negb ((c =? 42) && head_is_slash t) && no_close t.
Proof.
  destruct (N.eqb_spec c 42) as [->|Hn].
  - destruct t as [|d t']; [reflexivity|]. cbn [head_is_slash]. destruct (N.eqb_spec d 47) as [->|Hd]; [reflexivity|].
    cbn [andb negb]. destruct d as [|p]; [reflexivity|]. do 6 (destruct p as [p|p|]; try reflexivity); try (contradiction Hd; reflexivity).
  - cbn [andb negb]. destruct c as [|p]; [reflexivity|]. do 6 (destruct p as [p|p|]; try reflexivity); try (contradiction Hn; reflexivity).
Qed.
Lemma closes_no_close s : closes s = 0%nat -> no_close s = true.
Proof.
  induction s as [|c t IH]; [reflexivity|]. rewrite closes_cons, no_close_cons. intros H.
  destruct ((c =? star) && head_is_slash t) eqn:E; [discriminate H|]. change star with 42 in E. rewrite E. apply IH. exact H.
Qed.
Lemma docs_okb_block b : no_close b = true -> docs_okb (47 :: 42 :: (b ++ [42; 47; 10])) = true.
Proof.
  intros H. unfold docs_okb, block_body. rewrite rev_app_distr. cbn [rev app].
  change ((47 =? 47) && (42 =? 42)) with true. change ((10 =? 10) && (47 =? 47) && (42 =? 42)) with true. cbv iota.
  rewrite rev_involutive. exact H.
Qed.
Lemma docs_always_ok ls : docs_okb (parse_docs ls) = true.
Proof.
  destruct ls as [|l ls]; [rewrite parse_docs_nil; reflexivity|].
  assert (Hne : l :: ls <> []) by discriminate.
  destruct (parse_docs_shape _ Hne) as [Hs [body Hb]]. pose proof (parse_docs_one_close _ Hne) as Hc.
  apply starts_with_spec in Hs as [r Hr]. set (d := parse_docs (l :: ls)) in *.
  destruct body as [|x [|y b']].
  - rewrite Hb in Hr. discriminate Hr.
  - rewrite Hb in Hr. inversion Hr.
  - rewrite Hb in Hr. inversion Hr as [[Hx Hy Hrest]]. subst x y.
    rewrite Hb in Hc |- *. change ((47 :: 42 :: b') ++ lit "*/" ++ [nl]) with (47 :: 42 :: (b' ++ [42; 47; 10])).
    apply docs_okb_block. apply closes_no_close.
    rewrite closes_app in Hc. change (closes (lit "*/" ++ [nl])) with 1%nat in Hc. change (head_is_slash (lit "*/" ++ [nl])) with false in Hc.
    rewrite andb_false_r in Hc. rewrite !closes_cons in Hc.
    repeat match type of Hc with context [if ?c then _ else _] => destruct c end; lia.
Qed.

Lemma forallb_repeat {A} (f : A -> bool) a n : f a = true -> forallb f (repeat a n) = true.
Proof. intros H. induction n as [|n IH]; [reflexivity|]. cbn [repeat forallb]. rewrite H, IH. reflexivity. Qed.

Lemma Forall2_forallb {A B} (f : A -> outcome B) (ca : A -> bool) (cb : B -> bool) l l' :
  Forall (fun x => ca x = true -> forall y, f x = Ok y -> cb y = true) l -> forallb ca l = true ->
  Forall2 (fun x y => f x = Ok y) l l' -> forallb cb l' = true.
Proof.
  intros HF. revert l'. induction HF as [|x l Hx _ IH]; intros l' Hc H2; inversion H2 as [|x' y l0 l0' Hxy Hr]; subst; [reflexivity|].
  cbn [forallb] in Hc |- *. apply andb_true_iff in Hc as [H1 Hl]. rewrite (Hx H1 y Hxy), (IH l0' Hl Hr). reflexivity.
Qed.

(* in a list of which every member satisfies ca *)
Lemma Forall2_forallb_in {A B} (f : A -> outcome B) (ca : A -> bool) (cb : B -> bool) l l' :
  (forall x y, ca x = true -> f x = Ok y -> cb y = true) -> forallb ca l = true ->
  Forall2 (fun x y => f x = Ok y) l l' -> forallb cb l' = true.
Proof. intros H. apply Forall2_forallb. apply Forall_forall. intros x _ Hx y. apply H. exact Hx. Qed.

End S.

Lemma lookup_clean_gen is_upper is_alnum is_numeric R0 R id d :
  forallb (fun p => def_cleanb is_upper is_alnum is_numeric R0 (snd p)) R = true -> lookup R id = Some d ->
  def_cleanb is_upper is_alnum is_numeric R0 d = true.
Proof.
  induction R as [|[k d'] r IH]; cbn [lookup forallb snd]; intros HR H; [discriminate|].
  apply andb_true_iff in HR as [H1 H2]. destruct (str_eqb k id); [inversion H; subst; exact H1 | apply IH; assumption].
Qed.
Lemma lookup_clean is_upper is_alnum is_numeric R id d :
  clean_envb is_upper is_alnum is_numeric R = true -> lookup R id = Some d -> def_cleanb is_upper is_alnum is_numeric R d = true.
Proof. apply lookup_clean_gen. Qed.

(* ---- the generator ---------------------------------------------------------------------------------- *)
Section Layers.
Variable is_upper is_alnum is_numeric : char -> bool.
Hypothesis Hcls : classes_ok is_alnum is_numeric = true.
Variable R : env.
Hypothesis HR : clean_envb is_upper is_alnum is_numeric R = true.

Notation gshape := (gshape is_alnum is_numeric).
Notation rty_clean := (rty_clean is_alnum is_numeric).
Notation head_okb := (head_okb is_alnum is_numeric).
Notation type_nameb := (type_nameb is_alnum is_numeric).
Notation decl_nameb := (decl_nameb is_alnum is_numeric).
Notation def_cleanb := (def_cleanb is_upper is_alnum is_numeric R).
Notation variant_cleanb := (variant_cleanb is_upper is_alnum is_numeric R).
Notation field_cleanb := (field_cleanb is_alnum is_numeric R).
Notation flat_target := (flat_target is_alnum is_numeric R).
Notation flat_target_e := (flat_target_e is_alnum is_numeric R).
Notation flat_ok := (fun x : tsty => is_sobj x && gshape x).
Notation flat_ok_e := (fun x : tsty => is_paren x && gshape x).
Notation tfield_cleanb := (tfield_cleanb is_alnum is_numeric).
Notation shape_cleanb := (shape_cleanb is_alnum is_numeric R).
Notation param_cleanb := (param_cleanb is_alnum is_numeric).
Notation name_of := (name_of R).

Lemma def_clean_parts d : def_cleanb d = true ->
  no_text (c_type (attrs_of d)) = true /\ decl_nameb (ts_ident d) = true /\ cleanb (ts_ident d) = true /\
  forallb param_cleanb (c_params (attrs_of d)) = true.
Proof.
  unfold GenClean.def_cleanb. intros H. apply andb_true_iff in H as [H _]. apply andb_true_iff in H as [H H4]. apply andb_true_iff in H as [H _].
  apply andb_true_iff in H as [H H3]. apply andb_true_iff in H as [H1 H2]. auto.
Qed.
Lemma def_clean_export d : def_cleanb d = true -> match c_export_to (attrs_of d) with Some s => cleanb s | None => true end = true.
Proof.
  unfold GenClean.def_cleanb. intros H. apply andb_true_iff in H as [H _]. apply andb_true_iff in H as [H _]. apply andb_true_iff in H as [_ H]. exact H.
Qed.

Lemma prim_shape w : ascii_word w = true -> reserved w = false -> gshape (TPrim w) = true.
Proof. intros H1 H2. cbn [GenClean.gshape]. apply (word_type_nameb is_alnum is_numeric Hcls); assumption. Qed.

Lemma null_shape : gshape (prim "null"%string) = true.
Proof. cbn [prim GenClean.gshape]. apply null_type_nameb. Qed.

Lemma leaf_shape l : gshape (leaf_ts l) = true.
Proof.
  destruct l as [b lo hi| | | | |]; [destruct b|..]; cbn [leaf_ts]; try apply null_shape; apply prim_shape; reflexivity.
Qed.

(* ---- library layer ---- *)
Lemma name_of_shape : forall t, rty_clean t = true -> forall a, name_of t = Ok a -> gshape a = true.
Proof.
  induction t as [l|t IH|t IH|n t IH|ts IH|k v IHk IHv|t IH|t e IHt IHe|t IH|id args IH|i|n] using rty_ind';
    cbn [GenClean.rty_clean Gen.name_of]; intros Hc a H.
  - inversion H. apply leaf_shape.
  - apply bind_ok in H as (x & Hx & H). inversion H. cbn [GenClean.gshape forallb is_nil negb andb].
    rewrite (IH Hc x Hx), null_shape. reflexivity.
  - apply bind_ok in H as (x & Hx & H). inversion H. cbn [GenClean.gshape]. exact (IH Hc x Hx).
  - destruct n as [|m]; [inversion H; reflexivity|]. apply bind_ok in H as (x & Hx & H). inversion H. unfold array_ts.
    destruct (Nat.ltb _ _); cbn [GenClean.gshape]; [exact (IH Hc x Hx) | apply forallb_repeat; exact (IH Hc x Hx)].
  - apply bind_ok in H as (l & Hl & H). inversion H. cbn [GenClean.gshape]. apply omap_list_ok in Hl.
    exact (Forall2_forallb _ _ _ _ _ IH Hc Hl).
  - apply andb_true_iff in Hc as [H1 H2]. apply bind_ok in H as (x & Hx & H). apply bind_ok in H as (y & Hy & H). inversion H.
    cbn [GenClean.gshape]. rewrite (IHk H1 x Hx), (IHv H2 y Hy). reflexivity.
  - exact (IH Hc a H).
  - apply andb_true_iff in Hc as [H1 H2]. apply bind_ok in H as (x & Hx & H). apply bind_ok in H as (y & Hy & H). inversion H.
    cbn [GenClean.gshape]. rewrite (IHt H1 x Hx), (IHe H2 y Hy). reflexivity.
  - apply bind_ok in H as (x & Hx & H). inversion H. cbn [GenClean.gshape forallb fst snd].
    rewrite !(plain_head_ok is_alnum is_numeric Hcls) by reflexivity. rewrite (IH Hc x Hx). reflexivity.
  - destruct (lookup R id) as [d|] eqn:Hl; [|discriminate]. apply bind_ok in H as (l & Hl' & H). inversion H. cbn [GenClean.gshape].
    destruct (def_clean_parts d (lookup_clean _ _ _ _ _ _ HR Hl)) as (_ & Hn & _).
    rewrite (decl_type_nameb is_alnum is_numeric _ Hn). apply omap_list_ok in Hl'. exact (Forall2_forallb _ _ _ _ _ IH Hc Hl').
  - discriminate.
  - inversion H. exact Hc.
Qed.

Section Lib.
Variable g : dgen.
Hypothesis Hg : forall id d args r, lookup R id = Some d -> forallb rty_clean args = true -> g d args = Ok r ->
  gshape (fst r) = true /\ (flat_simple d = true -> exists x, snd r = Some x /\ flat_ok x = true) /\
  (flat_enum d = true -> exists x, snd r = Some x /\ flat_ok_e x = true).

Lemma lib_inline_shape : forall t, rty_clean t = true -> forall a, lib_inline R g t = Ok a -> gshape a = true.
Proof.
  induction t as [l|t IH|t IH|n t IH|ts IH|k v IHk IHv|t IH|t e IHt IHe|t IH|id args IH|i|n] using rty_ind';
    cbn [GenClean.rty_clean Gen.lib_inline]; intros Hc a H; try discriminate.
  - inversion H. apply leaf_shape.
  - apply bind_ok in H as (x & Hx & H). inversion H. cbn [GenClean.gshape forallb is_nil negb andb].
    rewrite (IH Hc x Hx), null_shape. reflexivity.
  - apply bind_ok in H as (x & Hx & H). inversion H. cbn [GenClean.gshape]. exact (IH Hc x Hx).
  - destruct n as [|m]; [inversion H; reflexivity|]. apply bind_ok in H as (x & Hx & H). inversion H. unfold array_ts.
    destruct (Nat.ltb _ _); cbn [GenClean.gshape]; [exact (IH Hc x Hx) | apply forallb_repeat; exact (IH Hc x Hx)].
  - apply andb_true_iff in Hc as [H1 H2]. apply bind_ok in H as (x & Hx & H). apply bind_ok in H as (y & Hy & H). inversion H.
    cbn [GenClean.gshape]. rewrite (IHk H1 x Hx), (IHv H2 y Hy). reflexivity.
  - exact (IH Hc a H).
  - apply andb_true_iff in Hc as [H1 H2]. apply bind_ok in H as (x & Hx & H). apply bind_ok in H as (y & Hy & H). inversion H.
    cbn [GenClean.gshape]. rewrite (IHt H1 x Hx), (IHe H2 y Hy). reflexivity.
  - destruct (lookup R id) as [d|] eqn:Hl; [|discriminate]. apply omap_ok in H as (r & Hr & ->). exact (proj1 (Hg id d args r Hl Hc Hr)).
Qed.

Lemma lib_flat_shape : forall t, flat_target t = true -> forall x, lib_flat R g t = Ok x -> flat_ok x = true.
Proof.
  induction t; cbn [GenClean.flat_target Gen.lib_flat]; intros Hf x H; try discriminate.
  - exact (IHt Hf x H).
  - destruct (lookup R id) as [d|] eqn:Hl; [|discriminate]. apply andb_true_iff in Hf as [Hs Ha].
    apply bind_ok in H as (r & Hr & H). destruct (Hg id d args r Hl Ha Hr) as (_ & Hfl & _). destruct (Hfl Hs) as (x0 & Hx0 & Hok).
    rewrite Hx0 in H. inversion H; subst. exact Hok.
Qed.

Lemma lib_flat_shape_e : forall t, flat_target_e t = true -> forall x, lib_flat R g t = Ok x -> flat_ok_e x = true.
Proof.
  induction t; cbn [GenClean.flat_target_e Gen.lib_flat]; intros Hf x H; try discriminate.
  - exact (IHt Hf x H).
  - destruct (lookup R id) as [d|] eqn:Hl; [|discriminate]. apply andb_true_iff in Hf as [Hs Ha].
    apply bind_ok in H as (r & Hr & H). destruct (Hg id d args r Hl Ha Hr) as (_ & _ & Hfl). destruct (Hfl Hs) as (x0 & Hx0 & Hok).
    rewrite Hx0 in H. inversion H; subst. exact Hok.
Qed.
End Lib.

(* ---- substitution keeps the names ---- *)
Lemma nth_clean args i d : forallb rty_clean args = true -> rty_clean d = true -> rty_clean (nth i args d) = true.
Proof.
  revert i. induction args as [|x l IH]; intros [|i] Ha Hd; cbn [nth]; try exact Hd; cbn [forallb] in Ha; apply andb_true_iff in Ha as [H1 H2];
    [exact H1 | apply IH; assumption].
Qed.

Lemma map_clean (f : rty -> rty) ts :
  Forall (fun t => rty_clean t = true -> rty_clean (f t) = true) ts -> forallb rty_clean ts = true -> forallb rty_clean (map f ts) = true.
Proof.
  induction 1 as [|x l Hx _ IH]; cbn [map forallb]; intros H; [reflexivity|]. apply andb_true_iff in H as [H1 H2].
  rewrite (Hx H1), (IH H2). reflexivity.
Qed.

Lemma rsubst_clean args : forallb rty_clean args = true -> forall t, rty_clean t = true -> rty_clean (rsubst args t) = true.
Proof.
  intros Ha. induction t as [l|t IH|t IH|n t IH|ts IH|k v IHk IHv|t IH|t e IHt IHe|t IH|id targs IH|i|n] using rty_ind';
    cbn [GenClean.rty_clean rsubst]; intros Hc; auto.
  - apply map_clean; assumption.
  - apply andb_true_iff in Hc as [H1 H2]. rewrite (IHk H1), (IHv H2). reflexivity.
  - apply andb_true_iff in Hc as [H1 H2]. rewrite (IHt H1), (IHe H2). reflexivity.
  - apply map_clean; assumption.
  - apply nth_clean; [exact Ha | reflexivity].
Qed.

Lemma option_inner_clean t : rty_clean t = true -> rty_clean (option_inner t) = true.
Proof. destruct t; cbn [option_inner GenClean.rty_clean]; auto. Qed.

Lemma field_ty_clean args opt fl : forallb rty_clean args = true -> rty_clean (f_ty fl) = true -> rty_clean (field_ty args opt fl) = true.
Proof.
  intros Ha Hc. unfold field_ty. destruct (snd _); [|apply option_inner_clean]; apply rsubst_clean; assumption.
Qed.

(* ---- derive layer ---- *)
Lemma forallb_filter {A} (f g : A -> bool) l : forallb f l = true -> forallb f (filter g l) = true.
Proof.
  induction l as [|x l IH]; cbn [forallb filter]; intros H; [reflexivity|]. apply andb_true_iff in H as [H1 H2].
  destruct (g x); cbn [forallb]; [rewrite H1|]; apply IH; exact H2.
Qed.

Lemma forallb_live (f : field -> bool) fs : forallb f fs = true -> forallb (fun fl => f fl && negb (f_skip fl)) (live fs) = true.
Proof.
  unfold live. induction fs as [|x l IH]; cbn [forallb filter]; intros H; [reflexivity|]. apply andb_true_iff in H as [H1 H2].
  destruct (f_skip x) eqn:Hs; cbn [negb forallb]; [apply IH; exact H2|]. rewrite H1, Hs. cbn [negb andb]. apply IH. exact H2.
Qed.

Lemma forallb_live_variants (f : variant -> bool) vs : forallb f vs = true -> forallb (fun v => f v && negb (v_skip v)) (live_variants vs) = true.
Proof.
  unfold live_variants. induction vs as [|x l IH]; cbn [forallb filter]; intros H; [reflexivity|]. apply andb_true_iff in H as [H1 H2].
  destruct (v_skip x) eqn:Hs; cbn [negb forallb]; [apply IH; exact H2|]. rewrite H1, Hs. cbn [negb andb]. apply IH. exact H2.
Qed.

Lemma Forall2_in_r {A B} (P : A -> B -> Prop) l l' : Forall2 P l l' -> forall y, In y l' -> exists x, In x l /\ P x y.
Proof.
  induction 1 as [|x y l l' Hxy _ IH]; intros z Hz; [contradiction|]. destruct Hz as [<-|Hz]; [exists x; split; [left; reflexivity | exact Hxy]|].
  destruct (IH z Hz) as (x' & Hx' & Hp). exists x'. split; [right; exact Hx' | exact Hp].
Qed.

Lemma forallb_filter_and {A} (f g : A -> bool) l : forallb f l = true -> forallb (fun x => f x && g x) (filter g l) = true.
Proof.
  induction l as [|x l IH]; cbn [forallb filter]; intros H; [reflexivity|]. apply andb_true_iff in H as [H1 H2].
  destruct (g x) eqn:Hg; cbn [forallb]; [rewrite H1, Hg|]; apply IH; exact H2.
Qed.

Lemma filter_neg_all {A} (g : A -> bool) l : filter g l = [] -> filter (fun x => negb (g x)) l = l.
Proof.
  induction l as [|x l IH]; cbn [filter]; intros H; [reflexivity|]. destruct (g x); [discriminate H|]. cbn [negb]. rewrite (IH H). reflexivity.
Qed.

(* flatten targets survive the instantiation of the host *)
Lemma flat_target_rsubst args : forallb rty_clean args = true -> forall t, flat_target t = true -> flat_target (rsubst args t) = true.
Proof.
  intros Ha. induction t; cbn [GenClean.flat_target rsubst]; intros H; try discriminate.
  - exact (IHt H).
  - destruct (lookup R id) as [d|]; [|discriminate]. apply andb_true_iff in H as [H1 H2]. rewrite H1. cbn [andb].
    apply map_clean; [|exact H2]. apply Forall_forall. intros x _. apply rsubst_clean. exact Ha.
Qed.
Lemma flat_target_inner t : flat_target t = true -> option_inner t = t.
Proof. destruct t; try discriminate; reflexivity. Qed.
Lemma flat_target_field_ty args opt fl : forallb rty_clean args = true -> flat_target (f_ty fl) = true -> flat_target (field_ty args opt fl) = true.
Proof.
  intros Ha Hf. pose proof (flat_target_rsubst args Ha _ Hf) as H. unfold field_ty. destruct (snd _); [exact H|]. rewrite (flat_target_inner _ H). exact H.
Qed.

Lemma flat_target_e_rsubst args : forallb rty_clean args = true -> forall t, flat_target_e t = true -> flat_target_e (rsubst args t) = true.
Proof.
  intros Ha. induction t; cbn [GenClean.flat_target_e rsubst]; intros H; try discriminate.
  - exact (IHt H).
  - destruct (lookup R id) as [d|]; [|discriminate]. apply andb_true_iff in H as [H1 H2]. rewrite H1. cbn [andb].
    apply map_clean; [|exact H2]. apply Forall_forall. intros x _. apply rsubst_clean. exact Ha.
Qed.
Lemma flat_target_e_inner t : flat_target_e t = true -> option_inner t = t.
Proof. destruct t; try discriminate; reflexivity. Qed.
Lemma flat_target_e_field_ty args opt fl : forallb rty_clean args = true -> flat_target_e (f_ty fl) = true -> flat_target_e (field_ty args opt fl) = true.
Proof.
  intros Ha Hf. pose proof (flat_target_e_rsubst args Ha _ Hf) as H. unfold field_ty. destruct (snd _); [exact H|]. rewrite (flat_target_e_inner _ H). exact H.
Qed.

Definition tag_ok (tag : option (str * str)) : bool := match tag with Some (t, n) => cleanb t && cleanb n | None => true end.

Section Def.
Variable inl flt : rty -> outcome tsty.
Hypothesis Hinl : forall t a, rty_clean t = true -> inl t = Ok a -> gshape a = true.
Hypothesis Hflt : forall t x, flat_target t = true -> flt t = Ok x -> flat_ok x = true.
Hypothesis Hflt_e : forall t x, flat_target_e t = true -> flt t = Ok x -> flat_ok_e x = true.
Variable args : list rty.
Hypothesis Hargs : forallb rty_clean args = true.

Lemma prop_of_shape ra opt fl p : field_cleanb ra fl && negb (f_skip fl) && negb (is_flat fl) = true ->
  prop_of is_alnum is_numeric R inl args ra opt fl = Ok p -> head_okb (fst p) && gshape (snd p) = true.
Proof.
  intros Hc H. apply andb_true_iff in Hc as [Hc Hnf]. apply andb_true_iff in Hc as [Hc Hs]. apply negb_true_iff in Hs.
  unfold GenClean.field_cleanb in Hc. rewrite Hs in Hc. cbn [orb] in Hc. apply andb_true_iff in Hc as [Hn Hc].
  unfold is_flat in Hnf. unfold prop_of in H. destruct (f_type fl); [discriminate Hn|]. rewrite andb_true_r in Hnf. apply negb_true_iff in Hnf.
  rewrite Hnf in Hc. apply andb_true_iff in Hc as [Ht Hk].
  apply bind_ok in H as (x & Hx & H). inversion H. cbn [fst snd].
  unfold TsSyn.head_okb. cbn [p_text p_docs]. rewrite (raw_head_ok is_alnum is_numeric _ Hk). unfold field_docs. rewrite docs_always_ok. cbn [andb].
  pose proof (field_ty_clean args opt fl Hargs Ht) as Hty.
  destruct (f_inline fl); [exact (Hinl _ _ Hty Hx) | exact (name_of_shape _ Hty _ Hx)].
Qed.

Definition enum_flat (fl : field) : bool := negb (f_skip fl) && f_flatten fl && flat_target_e (f_ty fl).

Lemma flat_of_shape ra opt fl x : field_cleanb ra fl && negb (f_skip fl) && is_flat fl = true ->
  flt (field_ty args opt fl) = Ok x -> (is_sobj x || is_paren x) && gshape x = true /\ (enum_flat fl = false -> is_sobj x = true).
Proof.
  intros Hc H. apply andb_true_iff in Hc as [Hc Hf]. apply andb_true_iff in Hc as [Hc Hs]. apply negb_true_iff in Hs.
  unfold GenClean.field_cleanb in Hc. rewrite Hs in Hc. cbn [orb] in Hc. apply andb_true_iff in Hc as [_ Hc].
  unfold is_flat in Hf. apply andb_true_iff in Hf as [Hf _]. rewrite Hf in Hc. unfold enum_flat. rewrite Hs, Hf. cbn [negb andb].
  apply orb_true_iff in Hc as [Hc|Hc].
  - pose proof (Hflt _ _ (flat_target_field_ty args opt fl Hargs Hc) H) as Hx. apply andb_true_iff in Hx as [H1 H2]. rewrite H1, H2. split; [reflexivity | intros _; reflexivity].
  - pose proof (Hflt_e _ _ (flat_target_e_field_ty args opt fl Hargs Hc) H) as Hx. apply andb_true_iff in Hx as [H1 H2]. rewrite H1, H2, orb_true_r. split; [reflexivity|].
    rewrite Hc. discriminate.
Qed.

Lemma value_ty_shape fl x : tfield_cleanb fl && negb (f_skip fl) = true -> value_ty R inl args fl = Ok x -> gshape x = true.
Proof.
  intros Hc H. apply andb_true_iff in Hc as [Hc Hs]. apply negb_true_iff in Hs. unfold GenClean.tfield_cleanb in Hc. rewrite Hs in Hc. cbn [orb] in Hc.
  apply andb_true_iff in Hc as [Hn Ht]. unfold value_ty in H. destruct (f_type fl); [discriminate Hn|].
  pose proof (rsubst_clean args Hargs _ Ht) as Hty.
  destruct (f_inline fl); [exact (Hinl _ _ Hty H) | exact (name_of_shape _ Hty _ H)].
Qed.

(* the result of a struct / struct variant with named fields; and, when nothing is flattened into it and it has a property,
   what it hands to a host that flattens it *)
Lemma named_body_shape ra opt tag fs r : forallb (field_cleanb ra) fs = true ->
  (existsb enum_flat fs = false \/ existsb (fun f => negb (f_skip f) && negb (f_flatten f)) fs = true) -> tag_ok tag = true ->
  bind (omap_list (prop_of is_alnum is_numeric R inl args ra opt) (filter (fun fl => negb (is_flat fl)) (live fs))) (fun props =>
  bind (omap_list (fun fl => flt (field_ty args opt fl)) (filter is_flat (live fs))) (fun flats =>
  let props := match tag with
               | Some (t, n) => (quoted_head t, TLit n) :: props
               | None => props
               end in
  let obj := TObj OStruct props in
  match props, flats with
  | _, [] => Ok (TMerged obj, Some (TMerged obj))
  | [], [x] => Ok (TMerged (TUnwrap x), Some (TMerged (TInter flats)))
  | [], _ => Ok (TMerged (TInter flats), Some (TMerged (TInter flats)))
  | _, _ => Ok (TMerged (TInter (obj :: flats)), Some (TMerged (TInter (obj :: flats))))
  end)) = Ok r ->
  gshape (fst r) = true /\
  (filter is_flat (live fs) = [] -> (tag <> None \/ live fs <> []) -> exists x, snd r = Some x /\ flat_ok x = true).
Proof.
  intros Hc Hhost Htag H. apply bind_ok in H as (props & Hp & H). apply bind_ok in H as (flats & Hf & H).
  apply omap_list_ok in Hp. apply omap_list_ok in Hf.
  assert (Hprops : forallb (fun p => head_okb (fst p) && gshape (snd p)) props = true).
  { refine (Forall2_forallb_in _ (fun fl => field_cleanb ra fl && negb (f_skip fl) && negb (is_flat fl)) _ _ _ _ _ Hp).
    - intros x y Hx Hy. exact (prop_of_shape ra opt x y Hx Hy).
    - apply (forallb_filter_and (fun fl => field_cleanb ra fl && negb (f_skip fl)) (fun fl => negb (is_flat fl))). apply forallb_live. exact Hc. }
  assert (Hflats : forallb (fun x => (is_sobj x || is_paren x) && gshape x) flats = true).
  { refine (Forall2_forallb_in _ (fun fl => field_cleanb ra fl && negb (f_skip fl) && is_flat fl) _ _ _ _ _ Hf).
    - intros x y Hx Hy. exact (proj1 (flat_of_shape ra opt x y Hx Hy)).
    - apply (forallb_filter_and (fun fl => field_cleanb ra fl && negb (f_skip fl)) is_flat). apply forallb_live. exact Hc. }
  (* without a property of its own the host flattens structs only *)
  assert (Hlone : props = [] -> forall x, In x flats -> is_sobj x = true).
  { intros -> x Hx. inversion Hp as [Hl|]. destruct Hhost as [Hno|Hown].
    - destruct (Forall2_in_r _ _ _ Hf x Hx) as (fl & Hin & Hfx).
      apply filter_In in Hin as [Hlive Hfl]. unfold live in Hlive. apply filter_In in Hlive as [Hfs Hsk].
      rewrite forallb_forall in Hc.
      assert (Hcond : field_cleanb ra fl && negb (f_skip fl) && is_flat fl = true) by (rewrite (Hc fl Hfs), Hsk, Hfl; reflexivity).
      apply (proj2 (flat_of_shape ra opt fl x Hcond Hfx)).
      destruct (enum_flat fl) eqn:Ee; [|reflexivity]. assert (existsb enum_flat fs = true) by (apply existsb_exists; exists fl; auto). congruence.
    - exfalso. apply existsb_exists in Hown as (f & Hfin & Hf0). apply andb_true_iff in Hf0 as [Hsk Hnf]. apply negb_true_iff in Hnf.
      assert (Hin : In f (filter (fun fl => negb (is_flat fl)) (live fs))).
      { apply filter_In. split; [unfold live; apply filter_In; split; assumption|]. unfold is_flat. rewrite Hnf. reflexivity. }
      rewrite <- Hl in Hin. contradiction. }
  assert (Htagp : forall t n, tag = Some (t, n) -> head_okb (quoted_head t) && cleanb n = true).
  { intros t n ->. cbn [tag_ok] in Htag. apply andb_true_iff in Htag as [Ht Hn]. rewrite (quoted_head_ok is_alnum is_numeric t Ht), Hn. reflexivity. }
  destruct flats as [|x1 flats'].
  - (* nothing flattened *)
    assert (Hr : r = (TMerged (TObj OStruct (match tag with Some (t, n) => (quoted_head t, TLit n) :: props | None => props end)),
                      Some (TMerged (TObj OStruct (match tag with Some (t, n) => (quoted_head t, TLit n) :: props | None => props end))))).
    { destruct tag as [[t n]|]; [|destruct props]; cbv beta zeta iota in H; inversion H; reflexivity. }
    subst r. cbn [fst snd].
    assert (Hall : forallb (fun p => head_okb (fst p) && gshape (snd p)) (match tag with Some (t, n) => (quoted_head t, TLit n) :: props | None => props end) = true).
    { destruct tag as [[t n]|]; [|exact Hprops]. cbn [forallb fst snd GenClean.gshape]. rewrite (Htagp t n eq_refl), Hprops. reflexivity. }
    split; [exact Hall|]. intros Hnf Hsome. eexists. split; [reflexivity|]. cbn [GenClean.gshape]. rewrite Hall, andb_true_r.
    destruct tag as [[t n]|]; [reflexivity|]. destruct Hsome as [Hs|Hs]; [contradiction Hs; reflexivity|].
    rewrite (filter_neg_all _ _ Hnf) in Hp. destruct props as [|p ps]; [|reflexivity]. inversion Hp as [Hl|]. contradiction Hs. symmetry. exact Hl.
  - (* flattened structs *)
    split; [|intros Hnf; rewrite Hnf in Hf; inversion Hf].
    cbn [forallb] in Hflats. apply andb_true_iff in Hflats as [Hx1 Hfl'].
    destruct tag as [[t n]|]; [|destruct props as [|p ps]]; [| destruct flats' as [|x2 flats'']|]; cbv beta zeta iota in H; inversion H; subst r; cbn [fst].
    + cbn [GenClean.gshape is_nil negb andb forallb is_sobj fst snd]. rewrite (Htagp t n eq_refl), Hprops, Hx1, Hfl'. reflexivity.
    + cbn [GenClean.gshape]. apply andb_true_iff in Hx1 as [_ Hg1]. rewrite (Hlone eq_refl x1 (or_introl eq_refl)), Hg1. reflexivity.
    + cbn [GenClean.gshape is_nil negb andb forallb]. cbn [forallb] in Hfl'. rewrite Hx1, Hfl'. reflexivity.
    + cbn [forallb] in Hprops. cbn [GenClean.gshape is_nil negb andb forallb is_sobj fst snd]. rewrite Hprops, Hx1, Hfl'. reflexivity.
Qed.

Lemma shape_gen_shape ra opt tag s r : shape_cleanb ra s = true -> tag_ok tag = true ->
  shape_gen is_alnum is_numeric R inl flt args ra opt tag s = Ok r ->
  gshape (fst r) = true /\
  (forall fs, s = SNamed fs -> filter is_flat (live fs) = [] -> (tag <> None \/ live fs <> []) -> exists x, snd r = Some x /\ flat_ok x = true).
Proof.
  intros Hc Htag H. destruct s as [|fs|fs]; cbn [GenClean.shape_cleanb] in Hc.
  - inversion H. split; [apply null_shape | discriminate].
  - split; [|discriminate]. destruct fs as [|f1 [|f2 fs']].
    + inversion H. reflexivity.
    + cbn [shape_gen] in H. cbn [forallb] in Hc. rewrite andb_true_r in Hc. destruct (f_skip f1) eqn:Hs; [inversion H; apply null_shape|].
      apply bind_ok in H as (x & Hx & H). inversion H. cbn [fst]. apply (value_ty_shape f1 x); [|exact Hx]. rewrite Hc, Hs. reflexivity.
    + cbn [shape_gen] in H. apply bind_ok in H as (l & Hl & H). inversion H. cbn [fst GenClean.gshape]. apply omap_list_ok in Hl.
      refine (Forall2_forallb_in _ (fun fl => tfield_cleanb fl && negb (f_skip fl)) _ _ _ _ _ Hl).
      * intros x y Hx Hy. exact (value_ty_shape x y Hx Hy).
      * apply forallb_live. exact Hc.
  - assert (G : (fs = [] /\ tag = None) \/ (gshape (fst r) = true /\ (filter is_flat (live fs) = [] -> (tag <> None \/ live fs <> []) -> exists x, snd r = Some x /\ flat_ok x = true))).
    { apply andb_true_iff in Hc as [Hc Hh].
      assert (Hhost : existsb enum_flat fs = false \/ existsb (fun f => negb (f_skip f) && negb (f_flatten f)) fs = true).
      { apply orb_true_iff in Hh as [Hh|Hh]; [left; apply negb_true_iff in Hh; exact Hh | right; exact Hh]. }
      destruct fs as [|f0 fs0]; destruct tag as [[t n]|]; try (right; exact (named_body_shape ra opt _ _ r Hc Hhost Htag H)). left. split; reflexivity. }
    destruct G as [[-> ->]|[G1 G2]].
    + inversion H. split; [reflexivity|]. intros fs' E _ [Hn|Hn]; [contradiction Hn; reflexivity | inversion E; subst fs'; contradiction Hn; reflexivity].
    + split; [exact G1|]. intros fs' E. inversion E; subst fs'. exact G2.
Qed.

Lemma tag_ok_variant tg (b : bool) name : tag_cleanb tg = true -> cleanb name = true ->
  tag_ok (match tg, b with Internal t, true => Some (t, name) | _, _ => None end) = true.
Proof. intros Ht Hn. destruct tg, b; cbn [tag_ok tag_cleanb] in *; try reflexivity. rewrite Ht, Hn. reflexivity. Qed.

Lemma variant_gen_shape a tg raf v t : variant_cleanb a raf v && negb (v_skip v) = true -> tag_cleanb tg = true ->
  variant_gen is_upper is_alnum is_numeric R inl flt args a tg raf v = Ok t -> gshape t = true.
Proof.
  intros Hc Htg H. apply andb_true_iff in Hc as [Hc Hs]. apply negb_true_iff in Hs. unfold GenClean.variant_cleanb in Hc. rewrite Hs in Hc. cbn [orb] in Hc.
  apply andb_true_iff in Hc as [Hc Hrest]. apply andb_true_iff in Hc as [Hnt Hname].
  unfold variant_gen in H. set (name := variant_name is_upper (c_rename_all a) v) in *.
  apply bind_ok in H as (vt & Hvt & H). apply bind_ok in H as (parsed & Hpa & H).
  assert (Hparsed : gshape parsed = true).
  { destruct (v_as v) as [u|].
    - exact (name_of_shape _ (rsubst_clean args Hargs _ Hrest) _ Hpa).
    - destruct (v_type v); [discriminate Hnt|]. inversion Hpa; subst parsed.
      exact (proj1 (shape_gen_shape _ _ _ _ vt Hrest (tag_ok_variant tg _ name Htg Hname) Hvt)). }
  clear Hvt Hpa Hrest.
  assert (Hq : forall k, cleanb k = true -> head_okb (quoted_head k) = true) by (intros k Hk; exact (quoted_head_ok is_alnum is_numeric k Hk)).
  destruct (v_untagged v); [inversion H; subst; exact Hparsed|].
  destruct tg as [|tk|tk ck|]; cbn [tag_cleanb] in Htg.
  - destruct (v_shape v) as [|[|fl [|fl2 fs']]|fs]; cbn [lone_field] in H; try destruct (f_skip fl);
      inversion H; subst t; cbn [GenClean.gshape forallb fst snd]; rewrite ?(Hq name Hname), ?Hparsed; try reflexivity; exact Hname.
  - destruct (snd vt); [inversion H; subst; exact Hparsed|].
    destruct (v_shape v) as [|[|fl [|fl2 fs']]|fs]; cbn [lone_field] in H; try destruct (f_skip fl);
      inversion H; subst t; cbn [GenClean.gshape forallb fst snd is_nil negb andb]; rewrite ?(Hq tk Htg), ?Hname, ?Hparsed; reflexivity.
  - apply andb_true_iff in Htg as [Ht1 Ht2].
    destruct (v_shape v) as [|[|fl [|fl2 fs']]|fs]; cbn [lone_field] in H; try destruct (f_skip fl);
      inversion H; subst t; cbn [GenClean.gshape forallb fst snd]; rewrite ?(Hq tk Ht1), ?(Hq ck Ht2), ?Hname, ?Hparsed; reflexivity.
  - inversion H; subst; exact Hparsed.
Qed.

Lemma flat_simple_live fs : forallb (fun f => f_skip f || negb (f_flatten f)) fs = true -> filter is_flat (live fs) = [].
Proof.
  unfold live. induction fs as [|x l IH]; cbn [forallb filter]; intros H; [reflexivity|]. apply andb_true_iff in H as [H1 H2].
  destruct (f_skip x) eqn:Hs; cbn [negb]; [apply IH; exact H2|]. cbn [filter orb] in *. apply negb_true_iff in H1. unfold is_flat. rewrite H1. cbn [andb].
  apply IH. exact H2.
Qed.
Lemma existsb_live fs : existsb (fun f => negb (f_skip f)) fs = true -> live fs <> [].
Proof.
  unfold live. induction fs as [|x l IH]; cbn [existsb filter]; intros H; [discriminate|]. destruct (negb (f_skip x)); [discriminate|]. apply IH. exact H.
Qed.

Lemma existsb_live_variants vs : existsb (fun v => negb (v_skip v)) vs = true -> live_variants vs <> [].
Proof.
  unfold live_variants. induction vs as [|x l IH]; cbn [existsb filter]; intros H; [discriminate|]. destruct (negb (v_skip x)); [discriminate|]. apply IH. exact H.
Qed.

Lemma def_body_shape d r : def_cleanb d = true ->
  def_body is_upper is_alnum is_numeric R inl flt d args = Ok r ->
  gshape (fst r) = true /\ (flat_simple d = true -> exists x, snd r = Some x /\ flat_ok x = true) /\
  (flat_enum d = true -> exists x, snd r = Some x /\ flat_ok_e x = true).
Proof.
  intros Hc H. destruct (def_clean_parts d Hc) as (Hnt & Hdn & Hcn & _). unfold GenClean.def_cleanb in Hc. apply andb_true_iff in Hc as [_ Hc].
  unfold def_body in H. destruct (c_type (attrs_of d)); [discriminate Hnt|]. destruct (c_as (attrs_of d)) as [u|] eqn:Has.
  - apply bind_ok in H as (x & Hx & H). inversion H. cbn [fst]. split; [exact (Hinl _ _ (rsubst_clean args Hargs _ Hc) Hx)|]. split.
    + intros Hfs. destruct d as [a [|fs|fs]|]; try discriminate Hfs. cbn [attrs_of] in Has. unfold flat_simple in Hfs. rewrite Has in Hfs. rewrite andb_false_r in Hfs. discriminate Hfs.
    + intros Hfe. destruct d as [|a tg raf vs]; try discriminate Hfe. cbn [attrs_of] in Has. unfold flat_enum in Hfe. rewrite Has in Hfe. rewrite andb_false_r in Hfe. discriminate Hfe.
  - destruct d as [a s|a tg raf vs].
    + apply andb_true_iff in Hc as [Ht Hs].
      assert (Htag : tag_ok (match c_tag a with Some t => Some (t, ts_ident (DStruct a s)) | None => None end) = true).
      { destruct (c_tag a) as [t|]; cbn [tag_ok]; [|reflexivity]. rewrite Ht, Hcn. reflexivity. }
      destruct (shape_gen_shape _ _ _ _ r Hs Htag H) as [G1 G2]. split; [exact G1|]. split; [|discriminate].
      intros Hfs. destruct s as [|fs|fs]; try discriminate Hfs. unfold flat_simple in Hfs.
      apply andb_true_iff in Hfs as [Hfs Hsome]. apply andb_true_iff in Hfs as [_ Hnofl].
      apply (G2 fs eq_refl (flat_simple_live fs Hnofl)). apply orb_true_iff in Hsome as [Hs1|Hs1].
      * left. destruct (c_tag a); [discriminate | discriminate Hs1].
      * right. apply existsb_live. exact Hs1.
    + apply andb_true_iff in Hc as [Htg Hvs]. destruct vs as [|v0 vs0].
      * inversion H. cbn [fst prim]. split; [apply prim_shape; reflexivity|]. split; [discriminate|]. intros Hfe. unfold flat_enum in Hfe. cbn [existsb] in Hfe. rewrite andb_false_r in Hfe. discriminate Hfe.
      * apply bind_ok in H as (l & Hl & H). apply omap_list_ok in Hl.
        assert (Hall : forallb gshape l = true).
        { refine (Forall2_forallb_in _ (fun v => variant_cleanb a raf v && negb (v_skip v)) _ _ _ _ _ Hl).
          - intros v y Hv Hy. exact (variant_gen_shape a tg raf v y Hv Htg Hy).
          - apply forallb_live_variants. exact Hvs. }
        destruct l as [|x l]; inversion H; cbn [fst snd prim].
        -- split; [apply prim_shape; reflexivity|]. split; [discriminate|]. intros Hfe. unfold flat_enum in Hfe. apply andb_true_iff in Hfe as [_ Hex].
           exfalso. apply (existsb_live_variants _ Hex). inversion Hl as [Hl0|]. symmetry. exact Hl0.
        -- cbn [GenClean.gshape is_nil negb andb]. split; [exact Hall|]. split; [discriminate|]. intros _. eexists. split; [reflexivity|].
           cbn [is_paren GenClean.gshape is_nil negb andb]. exact Hall.
Qed.
End Def.

(* ---- the knot ---- *)
Lemma gen_shape : forall fuel id d args r, lookup R id = Some d -> forallb rty_clean args = true ->
  gen is_upper is_alnum is_numeric R fuel d args = Ok r ->
  gshape (fst r) = true /\ (flat_simple d = true -> exists x, snd r = Some x /\ flat_ok x = true) /\
  (flat_enum d = true -> exists x, snd r = Some x /\ flat_ok_e x = true).
Proof.
  induction fuel as [|f IH]; intros id d args r Hl Ha H; [discriminate H|]. cbn [gen] in H.
  refine (def_body_shape _ _ _ _ _ args Ha d r (lookup_clean _ _ _ _ _ _ HR Hl) H).
  - intros t a Ht Hi. exact (lib_inline_shape _ IH t Ht a Hi).
  - intros t x Ht Hx. exact (lib_flat_shape _ IH t Ht x Hx).
  - intros t x Ht Hx. exact (lib_flat_shape_e _ IH t Ht x Hx).
Qed.

(* C14: the text of everything the derive builds there is the text of its structural meaning (the flatten rewrites
   `merge`, `unwrap` included): print (norm t) = print t *)
Theorem gen_norm_ok fuel id d args r : lookup R id = Some d -> forallb rty_clean args = true ->
  gen is_upper is_alnum is_numeric R fuel d args = Ok r -> norm_ok (fst r) = true.
Proof.
  intros Hl Ha H. destruct (gshape_checked is_alnum is_numeric _ (proj1 (gen_shape fuel id d args r Hl Ha H))) as [Hp _].
  unfold norm_ok. rewrite Hp. apply str_eqb_refl.
Qed.

Lemma dummies_clean a : forallb param_cleanb (c_params a) = true -> forallb rty_clean (dummies a) = true.
Proof.
  unfold dummies. induction (c_params a) as [|p l IH]; cbn [map forallb]; intros H; [reflexivity|]. apply andb_true_iff in H as [H1 H2].
  unfold GenClean.param_cleanb in H1. apply andb_true_iff in H1 as [H1 _]. cbn [GenClean.rty_clean].
  rewrite (decl_type_nameb is_alnum is_numeric _ H1). apply IH. exact H2.
Qed.

Theorem decl_of_checked fuel id d dc : lookup R id = Some d ->
  decl_of is_upper is_alnum is_numeric R fuel d = Ok dc ->
  decl_ok is_alnum is_numeric dc = true /\ docs_okb (d_docs dc) = true.
Proof.
  intros Hl H. pose proof (lookup_clean _ _ _ _ _ _ HR Hl) as Hc. destruct (def_clean_parts d Hc) as (_ & Hdn & _ & Hps).
  pose proof (dummies_clean _ Hps) as Hd.
  unfold decl_of in H. apply bind_ok in H as (r & Hr & H). apply bind_ok in H as (ps & Hp & H). inversion H; subst dc. clear H.
  unfold decl_ok. cbn [d_name d_params d_body d_docs]. rewrite Hdn, docs_always_ok.
  rewrite (gshape_syn_okn is_alnum is_numeric _ (proj1 (gen_shape fuel id d _ r Hl Hd Hr))). split; [|reflexivity]. rewrite andb_true_r. cbn [andb].
  apply omap_list_ok in Hp. refine (Forall2_forallb_in _ param_cleanb _ _ _ _ Hps Hp).
  intros p y Hpc Hy. unfold GenClean.param_cleanb in Hpc. apply andb_true_iff in Hpc as [H1 H2]. unfold param_ok.
  destruct (snd p) as [dflt|].
  - apply bind_ok in Hy as (x & Hx & Hy). inversion Hy. cbn [fst snd]. rewrite H1.
    exact (gshape_syn_okn is_alnum is_numeric _ (name_of_shape _ (rsubst_clean _ Hd _ H2) _ Hx)).
  - inversion Hy. cbn [fst snd]. rewrite H1. reflexivity.
Qed.
End Layers.

(* ---- the whole export: import block, doc block, declaration ---------------------------------------- *)
Section Export.
Variable is_upper is_alnum is_numeric : char -> bool.
Hypothesis Hcls : classes_ok is_alnum is_numeric = true.
Variable R : env.
Hypothesis HR : clean_envb is_upper is_alnum is_numeric R = true.
Variable esm : bool.
Variable cwd : list str.
Hypothesis Hcwd : forallb cleanb cwd = true.

Notation decl_nameb := (decl_nameb is_alnum is_numeric).
Notation group_okb := (group_okb is_alnum is_numeric).
Notation def_cleanb := (def_cleanb is_upper is_alnum is_numeric R).

Definition dep_ok (e : dep) : bool := decl_nameb (snd (fst e)) && cleanb (snd e).

Lemma output_path_clean d : def_cleanb d = true -> cleanb (output_path_of d) = true.
Proof.
  intros Hc. destruct (def_clean_parts _ _ _ _ d Hc) as (_ & _ & Hn & _). pose proof (def_clean_export _ _ _ _ d Hc) as He.
  unfold output_path_of. destruct (c_export_to (attrs_of d)) as [s|].
  - destruct (ends_with _ s); [|exact He]. rewrite !cleanb_app, He, Hn. reflexivity.
  - rewrite cleanb_app, Hn. reflexivity.
Qed.

Lemma out_path_clean t p : out_path R t = Some p -> cleanb p = true /\ decl_nameb (ident_of R t) = true.
Proof.
  unfold out_path, ident_of. destruct t as [| | | | | | | | |id args| |]; try discriminate. destruct (lookup R id) as [d|] eqn:Hl; [|discriminate].
  intros H. inversion H. pose proof (lookup_clean _ _ _ _ _ _ HR Hl) as Hc. split; [apply output_path_clean; exact Hc|].
  destruct (def_clean_parts _ _ _ _ d Hc) as (_ & Hn & _). exact Hn.
Qed.

Lemma dependencies_ok fuel t deps : dependencies_of R fuel t = Ok deps -> forallb dep_ok deps = true.
Proof.
  unfold dependencies_of. intros H. apply omap_ok in H as (l & _ & ->).
  induction l as [|u l IH]; [reflexivity|]. cbn [flat_map]. rewrite forallb_app. apply andb_true_iff. split; [|exact IH].
  destruct (out_path R u) as [p|] eqn:Hp; [|reflexivity]. destruct (out_path_clean u p Hp) as [H1 H2].
  cbn [forallb]. unfold dep_ok. cbn [fst snd]. rewrite H1, H2. reflexivity.
Qed.

Lemma dep_insert_ok e m : dep_ok e = true -> forallb dep_ok m = true -> forallb dep_ok (dep_insert e m) = true.
Proof.
  intros He. induction m as [|x r IH]; cbn [dep_insert forallb]; intros H; [rewrite He; reflexivity|].
  apply andb_true_iff in H as [Hx Hr]. destruct (str_compare _ _); cbn [forallb]; rewrite ?He, ?Hx, ?Hr, ?IH; auto.
Qed.

Lemma fold_step_ok path dir : cleanb path = true -> cleanb dir = true -> forall l acc m, forallb dep_ok l = true ->
  (forall m0, acc = Ok m0 -> forallb group_okb m0 = true) ->
  fold_left (fun (acc : outcome imports_map) (e : dep) =>
               bind acc (fun m =>
               bind (import_path esm cwd path (path_join dir (snd e))) (fun rel =>
               if is_same_file path rel then Ok m else Ok (map_insert rel [snd (fst e)] m)))) l acc = Ok m ->
  forallb group_okb m = true.
Proof.
  intros Hpath Hdir. induction l as [|e l IH]; cbn [fold_left forallb]; intros acc m Hl Hacc H; [exact (Hacc m H)|].
  apply andb_true_iff in Hl as [He Hl]. refine (IH _ m Hl _ H). intros m0 E.
  apply bind_ok in E as (m1 & Hm1 & E). apply bind_ok in E as (rel & Hrel & E).
  unfold dep_ok in He. apply andb_true_iff in He as [Hn Hp].
  pose proof (import_path_clean _ _ _ _ _ Hcwd Hpath (path_join_clean _ _ Hdir Hp) Hrel) as Hc.
  destruct (is_same_file path rel); inversion E; subst m0; [exact (Hacc m1 Hm1)|].
  apply map_insert_ok; [|exact (Hacc m1 Hm1)]. unfold Grammar_proofs.group_okb. cbn [fst snd forallb is_nil negb]. rewrite Hc, Hn. reflexivity.
Qed.

Lemma import_groups_ok t dir deps m : cleanb dir = true -> forallb dep_ok deps = true ->
  import_groups R esm cwd t dir deps = Ok m -> forallb group_okb m = true.
Proof.
  intros Hdir Hdeps H. unfold import_groups in H. destruct (out_path R t) as [op|] eqn:Hop; [|discriminate].
  destruct (out_path_clean t op Hop) as [Hopc _]. pose proof (path_join_clean _ _ Hdir Hopc) as Hpath.
  assert (Hdd : forall l acc, forallb dep_ok l = true -> forallb dep_ok acc = true -> forallb dep_ok (fold_left (fun m e => dep_insert e m) l acc) = true).
  { induction l as [|e l IH]; cbn [fold_left forallb]; intros acc Hl Ha; [exact Ha|]. apply andb_true_iff in Hl as [H1 H2].
    apply IH; [exact H2 | apply dep_insert_ok; assumption]. }
  refine (fold_step_ok _ dir Hpath Hdir _ (Ok []) m (Hdd _ [] (forallb_filter _ _ _ Hdeps) eq_refl) _ H).
  intros m0 E. inversion E. reflexivity.
Qed.

Theorem export_parts_checked fuel t dir m docs dc : cleanb dir = true ->
  export_parts is_upper is_alnum is_numeric R esm cwd fuel t dir = Ok (m, docs, dc) ->
  forallb group_okb m = true /\ docs_okb docs = true /\ decl_ok is_alnum is_numeric dc = true.
Proof.
  intros Hdir Hp. unfold export_parts in Hp.
  destruct (out_path R (without_generics t)); [|discriminate].
  apply bind_ok in Hp as (deps & Hdeps & Hp). apply bind_ok in Hp as (m' & Hm & Hp).
  destruct t as [| | | | | | | | |id args| |]; try discriminate. destruct (lookup R id) as [d|] eqn:Hl; [|discriminate].
  apply bind_ok in Hp as (dc' & Hdc & Hp). inversion Hp; subst m' docs dc'. clear Hp.
  destruct (decl_of_checked _ _ _ Hcls R HR fuel id d dc Hl Hdc) as [H1 _].
  split; [exact (import_groups_ok _ dir deps m Hdir (dependencies_ok _ _ _ Hdeps) Hm)|]. split; [apply docs_always_ok | exact H1].
Qed.

Theorem export_checked fuel t dir s : cleanb dir = true ->
  export_string is_upper is_alnum is_numeric R esm cwd fuel t dir = Ok s ->
  export_okb is_upper is_alnum is_numeric R esm cwd fuel t dir = true.
Proof.
  intros Hdir Hs. destruct (export_string_parts _ _ _ _ _ _ _ _ _ _ Hs) as (m & docs & dc & Hp & _).
  unfold export_okb. rewrite Hp. destruct (export_parts_checked fuel t dir m docs dc Hdir Hp) as (H1 & H2 & H3).
  change (imports_okb is_alnum is_numeric m) with (forallb group_okb m). rewrite H1, H2, H3. reflexivity.
Qed.

(* several exports sharing a file: the canonical file (C05) of any set of exports of the environment is a module *)
Theorem merged_exports_parse items :
  Forall (fun i => exists fuel t dir m docs dc, cleanb dir = true /\
            export_parts is_upper is_alnum is_numeric R esm cwd fuel t dir = Ok (m, docs, dc) /\
            it_imports i = m /\ it_block i = docs ++ lit "export " ++ print_decl dc) items ->
  module is_alnum is_numeric (canonical_file items).
Proof.
  intros H. apply (canonical_file_in_grammar is_alnum is_numeric). revert H. apply Forall_impl.
  intros i (fuel & t & dir & m & docs & dc & Hdir & Hp & Hi & Hb). destruct (export_parts_checked fuel t dir m docs dc Hdir Hp) as (H1 & H2 & H3).
  rewrite Hi, Hb. split; [exact H1 | apply (export_block is_alnum is_numeric Hcls); assumption].
Qed.
End Export.
