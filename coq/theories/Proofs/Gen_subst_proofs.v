(* C07 / C14 (instantiation): the type generated for a definition at the arguments `args[rho]`
   is the type generated at `args` with every parameter replaced — in name position by the
   TypeScript name of its argument, in flattened position by the argument's inline_flattened form.
   With `args` = the dummies this says: the body of decl() instantiated at the arguments is the
   inline() form (the body of decl_concrete()).
   Library layer by induction over `rty`, derive layer by case analysis, knot by induction on fuel. *)
From TsRs Require Import Base.Str Base.Outcome Gen.Tables Model.Case Model.TsAst Model.Rust Model.Docs Model.Gen
  Spec.TsFree Spec.RtyInd Proofs.Gen_base_proofs.
From Coq Require Import List Lia Bool.
Import ListNotations.

Section Subst.
Variable is_upper is_alnum is_numeric : char -> bool.
Variable R : env.
Variable rho : str -> option rty.

Notation name_of := (name_of R).
Notation lib_inline := (lib_inline R).
Notation lib_flat := (lib_flat R).
Notation gen := (gen is_upper is_alnum is_numeric R).
Notation flat_of := (flat_of is_upper is_alnum is_numeric R).
Notation ds := (dsubst rho).

(* `inst a a'`: a' is a with its parameters instantiated according to rho *)
Inductive inst : tsty -> tsty -> Prop :=
| I_prim s : inst (TPrim s) (TPrim s)
| I_neverarr : inst TNeverArr TNeverArr
| I_recnever : inst TRecordNever TRecordNever
| I_lit s : inst (TLit s) (TLit s)
| I_raw s : inst (TRaw s) (TRaw s)
| I_var n u a : rho n = Some u -> name_of u = Ok a -> inst (TVar n) a
| I_var_none n : rho n = None -> inst (TVar n) (TVar n)
| I_varf n u a fuel : rho n = Some u -> flat_of fuel u = Ok a -> inst (TVarF n) a
| I_varf_none n : rho n = None -> inst (TVarF n) (TVarF n)
| I_ref n l l' : Forall2 inst l l' -> inst (TRef n l) (TRef n l')
| I_array a a' : inst a a' -> inst (TArray a) (TArray a')
| I_paren a a' : inst a a' -> inst (TParen a) (TParen a')
| I_merged a a' : inst a a' -> inst (TMerged a) (TMerged a')
| I_unwrap a a' : inst a a' -> inst (TUnwrap a) (TUnwrap a')
| I_tuple l l' : Forall2 inst l l' -> inst (TTuple l) (TTuple l')
| I_union l l' : Forall2 inst l l' -> inst (TUnion l) (TUnion l')
| I_inter l l' : Forall2 inst l l' -> inst (TInter l) (TInter l')
| I_obj st ps ps' : Forall2 (fun p p' => fst p = fst p' /\ inst (snd p) (snd p')) ps ps' -> inst (TObj st ps) (TObj st ps')
| I_mapped k v k' v' : inst k k' -> inst v v' -> inst (TMapped k v) (TMapped k' v')
| I_result k v k' v' : inst k k' -> inst v v' -> inst (TResult k v) (TResult k' v').

Lemma inst_leaf l : inst (leaf_ts l) (leaf_ts l).
Proof. destruct l as [[|] ? ?| | | | |]; constructor. Qed.

Lemma inst_array n a a' : inst a a' -> inst (array_ts n a) (array_ts n a').
Proof.
  intros H. unfold array_ts. destruct (Nat.ltb _ _); constructor; [exact H|].
  induction n; cbn; constructor; auto.
Qed.

(* two runs of omap_list over the same list, related elementwise *)
Lemma omap_list_rel {A B} (f f' : A -> outcome B) (Rel : B -> B -> Prop) l xs xs' :
  omap_list f l = Ok xs -> omap_list f' l = Ok xs' ->
  (forall x a a', In x l -> f x = Ok a -> f' x = Ok a' -> Rel a a') -> Forall2 Rel xs xs'.
Proof.
  intros H H' Hrel. apply omap_list_ok in H. apply omap_list_ok in H'.
  revert xs' H'. induction H as [|x a l xs Hx _ IH]; intros xs' H'; inversion H'; subst; constructor.
  - eapply Hrel; [left; reflexivity | eassumption | eassumption].
  - apply IH; [intros; eapply Hrel; [right|..]; eassumption | assumption].
Qed.

Lemma omap_list_map {A B C} (f : B -> outcome C) (h : A -> B) l : omap_list f (map h l) = omap_list (fun x => f (h x)) l.
Proof. induction l as [|x l IH]; cbn; [reflexivity | rewrite IH; reflexivity]. Qed.

Lemma name_of_inst : forall t a a', name_of t = Ok a -> name_of (ds t) = Ok a' -> inst a a'.
Proof.
  induction t as [l|t IH|t IH|n t IH|ts IH|k v IHk IHv|t IH|t e IHt IHe|t IH|id args IH|i|n] using rty_ind';
    cbn [Gen.name_of dsubst]; intros a a' H H'.
  - inversion H; inversion H'. apply inst_leaf.
  - apply bind_ok in H as (x & Hx & H). apply bind_ok in H' as (x' & Hx' & H'). inversion H; inversion H'.
    constructor. constructor; [eauto|]. constructor; [constructor|constructor].
  - apply bind_ok in H as (x & Hx & H). apply bind_ok in H' as (x' & Hx' & H'). inversion H; inversion H'. constructor; eauto.
  - destruct n as [|n']; [inversion H; inversion H'; constructor; constructor|].
    apply bind_ok in H as (x & Hx & H). apply bind_ok in H' as (x' & Hx' & H'). inversion H; inversion H'. apply inst_array; eauto.
  - apply bind_ok in H as (x & Hx & H). apply bind_ok in H' as (x' & Hx' & H'). inversion H; inversion H'. constructor.
    rewrite omap_list_map in Hx'. eapply omap_list_rel; [exact Hx | exact Hx' |].
    rewrite Forall_forall in IH. intros; eapply IH; eassumption.
  - apply bind_ok in H as (x & Hx & H). apply bind_ok in H as (y & Hy & H).
    apply bind_ok in H' as (x' & Hx' & H'). apply bind_ok in H' as (y' & Hy' & H'). inversion H; inversion H'. constructor; eauto.
  - eauto.
  - apply bind_ok in H as (x & Hx & H). apply bind_ok in H as (y & Hy & H).
    apply bind_ok in H' as (x' & Hx' & H'). apply bind_ok in H' as (y' & Hy' & H'). inversion H; inversion H'. constructor; eauto.
  - apply bind_ok in H as (x & Hx & H). apply bind_ok in H' as (x' & Hx' & H'). inversion H; inversion H'. constructor.
    constructor; [split; [reflexivity|eauto]|]. constructor; [split; [reflexivity|eauto]|]. constructor.
  - destruct (lookup R id) as [d|]; [|discriminate].
    apply bind_ok in H as (x & Hx & H). apply bind_ok in H' as (x' & Hx' & H'). inversion H; inversion H'. constructor.
    rewrite omap_list_map in Hx'. eapply omap_list_rel; [exact Hx | exact Hx' |].
    rewrite Forall_forall in IH. intros; eapply IH; eassumption.
  - discriminate.
  - inversion H. destruct (rho n) as [u|] eqn:Hn.
    + econstructor; eassumption.
    + cbn in H'. inversion H'. constructor. exact Hn.
Qed.

(* what a derived type answers at substituted arguments *)
Definition r_inst (r r' : derived) : Prop :=
  inst (fst r) (fst r') /\
  match snd r, snd r' with
  | Some x, Some x' => inst x x'
  | None, None => True
  | _, _ => False
  end.

Definition g_inst (g : dgen) : Prop :=
  forall id d args r r', lookup R id = Some d ->
    g d args = Ok r -> g d (map ds args) = Ok r' -> r_inst r r'.

Lemma lib_inline_inst g : g_inst g -> forall t a a', lib_inline g t = Ok a -> lib_inline g (ds t) = Ok a' -> inst a a'.
Proof.
  intros Hg.
  induction t as [l|t IH|t IH|n t IH|ts IH|k v IHk IHv|t IH|t e IHt IHe|t IH|id args IH|i|n] using rty_ind';
    cbn [Gen.lib_inline dsubst]; intros a a' H H'; try discriminate.
  - inversion H; inversion H'. apply inst_leaf.
  - apply bind_ok in H as (x & Hx & H). apply bind_ok in H' as (x' & Hx' & H'). inversion H; inversion H'.
    constructor. constructor; [eauto|]. constructor; [constructor|constructor].
  - apply bind_ok in H as (x & Hx & H). apply bind_ok in H' as (x' & Hx' & H'). inversion H; inversion H'. constructor; eauto.
  - destruct n as [|n']; [inversion H; inversion H'; constructor; constructor|].
    apply bind_ok in H as (x & Hx & H). apply bind_ok in H' as (x' & Hx' & H'). inversion H; inversion H'. apply inst_array; eauto.
  - apply bind_ok in H as (x & Hx & H). apply bind_ok in H as (y & Hy & H).
    apply bind_ok in H' as (x' & Hx' & H'). apply bind_ok in H' as (y' & Hy' & H'). inversion H; inversion H'. constructor; eauto.
  - eauto.
  - apply bind_ok in H as (x & Hx & H). apply bind_ok in H as (y & Hy & H).
    apply bind_ok in H' as (x' & Hx' & H'). apply bind_ok in H' as (y' & Hy' & H'). inversion H; inversion H'. constructor; eauto.
  - destruct (lookup R id) as [d|] eqn:Hlk; [|discriminate].
    apply omap_ok in H as (r & Hr & ->). apply omap_ok in H' as (r' & Hr' & ->).
    apply (Hg _ _ _ _ _ Hlk Hr Hr').
Qed.

Lemma lib_flat_inst g : g_inst g -> (forall u a, lib_flat g u = Ok a -> exists fuel, flat_of fuel u = Ok a) ->
  forall t a a', lib_flat g t = Ok a -> lib_flat g (ds t) = Ok a' -> inst a a'.
Proof.
  intros Hg Hfuel.
  induction t as [l|t IH|t IH|n t IH|ts IH|k v IHk IHv|t IH|t e IHt IHe|t IH|id args IH|i|n] using rty_ind';
    cbn [Gen.lib_flat dsubst]; intros a a' H H'; try discriminate.
  - eauto.
  - destruct (lookup R id) as [d|] eqn:Hlk; [|discriminate].
    apply bind_ok in H as (r & Hr & H). apply bind_ok in H' as (r' & Hr' & H').
    destruct (Hg _ _ _ _ _ Hlk Hr Hr') as [_ Hs].
    destruct (snd r); destruct (snd r'); try discriminate; try contradiction. inversion H; inversion H'; subst. exact Hs.
  - inversion H. destruct (rho n) as [u|] eqn:Hn.
    + apply Hfuel in H' as [fuel Hf]. econstructor; eassumption.
    + cbn in H'. inversion H'. constructor. exact Hn.
Qed.

(* --- commuting the two substitutions -------------------------------------------------------- *)
Lemma rsubst_dsubst args n : forall t, src_ty n t = true -> rsubst (map ds args) t = ds (rsubst args t).
Proof.
  induction t as [l|t IH|t IH|m t IH|ts IH|k v IHk IHv|t IH|t e IHt IHe|t IH|id targs IH|i|m] using rty_ind';
    cbn [src_ty rsubst dsubst]; intros Hs; try reflexivity; try discriminate.
  - f_equal; auto.
  - f_equal; auto.
  - f_equal; auto.
  - f_equal. rewrite map_map. apply map_ext_in. intros x Hx. rewrite Forall_forall in IH. apply IH; [exact Hx|].
    rewrite forallb_forall in Hs; auto.
  - apply andb_true_iff in Hs as [Hk Hv]. f_equal; auto.
  - f_equal; auto.
  - apply andb_true_iff in Hs as [Hk Hv]. f_equal; auto.
  - f_equal; auto.
  - f_equal. rewrite map_map. apply map_ext_in. intros x Hx. rewrite Forall_forall in IH. apply IH; [exact Hx|].
    rewrite forallb_forall in Hs; auto.
  - change (RParam i) with (ds (RParam i)) at 1. apply map_nth.
Qed.

(* optional fields: the `?` decision looks at the outermost constructor of the field type, which the
   instantiation can only change when the field type is a bare parameter *)
Definition is_param (t : rty) : bool := match t with RParam _ => true | _ => false end.

Lemma is_option_ds args n t : src_ty n t = true -> is_param t = false ->
  is_option (ds (rsubst args t)) = is_option (rsubst args t) /\
  option_inner (ds (rsubst args t)) = ds (option_inner (rsubst args t)).
Proof. destruct t; cbn; intros Hs Hp; try discriminate; split; reflexivity. Qed.

Definition opt_field_ok (opt : optional) (fl : field) : bool :=
  match opt, f_optional fl with
  | NotOptional, NotOptional => true
  | _, _ => negb (is_param (f_ty fl))
  end.
Definition opt_shape_ok (opt : optional) (s : shape) : bool :=
  match s with SNamed fs => forallb (opt_field_ok opt) fs | _ => true end.
Definition opt_def_ok (d : typedef) : bool :=
  match d with
  | DStruct a s => opt_shape_ok (c_optional_fields a) s
  | DEnum _ _ _ vs => forallb (fun v => opt_shape_ok NotOptional (v_shape v)) vs
  end.

Lemma field_optional_ds args n opt fl : src_field n fl = true -> opt_field_ok opt fl = true ->
  field_optional opt fl (ds (rsubst args (f_ty fl))) = field_optional opt fl (rsubst args (f_ty fl)) /\
  field_ty (map ds args) opt fl = ds (field_ty args opt fl).
Proof.
  intros Hs Hok. unfold field_ty. rewrite (rsubst_dsubst args n _ Hs).
  unfold field_optional, opt_field_ok in *.
  destruct opt as [|on]; destruct (f_optional fl) as [|fn]; cbn [fst snd].
  - split; reflexivity.
  - apply negb_true_iff in Hok. destruct (is_option_ds args n _ Hs Hok) as [E1 E2]. split; [reflexivity|].
    destruct fn; [reflexivity | exact E2].
  - apply negb_true_iff in Hok. destruct (is_option_ds args n _ Hs Hok) as [E1 E2]. rewrite E1. split; [reflexivity|].
    destruct on; [reflexivity | exact E2].
  - apply negb_true_iff in Hok. destruct (is_option_ds args n _ Hs Hok) as [E1 E2]. split; [reflexivity|].
    destruct fn; [reflexivity | exact E2].
Qed.

(* ============================ derive layer ================================================== *)
Section Def.
Variable inl flt : rty -> outcome tsty.
Hypothesis Hinl : forall t a a', inl t = Ok a -> inl (ds t) = Ok a' -> inst a a'.
Hypothesis Hflt : forall t a a', flt t = Ok a -> flt (ds t) = Ok a' -> inst a a'.
Variable args : list rty.
Variable n : nat.
Notation args' := (map ds args).

Lemma value_ty_inst fl a a' : src_field n fl = true ->
  value_ty R inl args fl = Ok a -> value_ty R inl args' fl = Ok a' -> inst a a'.
Proof.
  intros Hs. unfold value_ty. rewrite (rsubst_dsubst args n _ Hs). destruct (f_type fl).
  - intros H H'; inversion H; inversion H'. constructor.
  - destruct (f_inline fl); intros H H'; [eapply Hinl | eapply name_of_inst]; eassumption.
Qed.

Lemma prop_of_inst ra opt fl p p' : src_field n fl = true -> opt_field_ok opt fl = true ->
  prop_of is_alnum is_numeric R inl args ra opt fl = Ok p -> prop_of is_alnum is_numeric R inl args' ra opt fl = Ok p' ->
  fst p = fst p' /\ inst (snd p) (snd p').
Proof.
  intros Hs Hok. unfold prop_of. destruct (f_type fl).
  - intros H H'; inversion H; inversion H'. split; [reflexivity | constructor].
  - destruct (field_optional_ds args n opt fl Hs Hok) as [E1 E2]. rewrite E2.
    rewrite (rsubst_dsubst args n _ Hs), E1.
    intros H H'. apply bind_ok in H as (x & Hx & H). apply bind_ok in H' as (x' & Hx' & H'). inversion H; inversion H'.
    cbn [fst snd]. split; [reflexivity|].
    destruct (f_inline fl); [eapply Hinl | eapply name_of_inst]; eassumption.
Qed.

Lemma forallb_filter' {A} (p q : A -> bool) l : forallb p l = true -> forallb p (filter q l) = true.
Proof. rewrite !forallb_forall. intros H x Hx. apply H. eapply filter_incl_in; exact Hx. Qed.

Lemma r_inst_none a a' : inst a a' -> r_inst (a, None) (a', None).
Proof. intros H; split; [exact H | exact I]. Qed.

Lemma r_inst_same a : inst a a -> r_inst (a, None) (a, None).
Proof. apply r_inst_none. Qed.

Lemma shape_gen_inst ra opt tag s r r' : src_shape n s = true -> opt_shape_ok opt s = true ->
  shape_gen is_alnum is_numeric R inl flt args ra opt tag s = Ok r ->
  shape_gen is_alnum is_numeric R inl flt args' ra opt tag s = Ok r' -> r_inst r r'.
Proof.
  intros Hs Hopt. unfold shape_gen. destruct s as [|fs|fs].
  - intros H H'; inversion H; inversion H'. apply r_inst_none; constructor.
  - destruct fs as [|fl [|fl2 fs]].
    + intros H H'; inversion H; inversion H'. apply r_inst_none; constructor.
    + cbn in Hs. apply andb_true_iff in Hs as [Hs _]. destruct (f_skip fl).
      * intros H H'; inversion H; inversion H'. apply r_inst_none; constructor.
      * intros H H'. apply bind_ok in H as (x & Hx & H). apply bind_ok in H' as (x' & Hx' & H'). inversion H; inversion H'.
        apply r_inst_none. eapply value_ty_inst; eassumption.
    + intros H H'. apply bind_ok in H as (l & Hl & H). apply bind_ok in H' as (l' & Hl' & H'). inversion H; inversion H'.
      apply r_inst_none. constructor. eapply omap_list_rel; [exact Hl | exact Hl' |].
      intros x a a' Hx. eapply value_ty_inst. cbn [src_shape] in Hs. rewrite forallb_forall in Hs. apply Hs.
      eapply filter_incl_in; exact Hx.
  - cbn [src_shape opt_shape_ok] in Hs, Hopt.
    assert (Hmain : forall r r',
      bind (omap_list (prop_of is_alnum is_numeric R inl args ra opt) (filter (fun fl => negb (is_flat fl)) (live fs))) (fun props =>
      bind (omap_list (fun fl => flt (field_ty args opt fl)) (filter is_flat (live fs))) (fun flats =>
      let props := match tag with Some (t, n0) => (quoted_head t, TLit n0) :: props | None => props end in
      let obj := TObj OStruct props in
      match props, flats with
      | _, [] => Ok (TMerged obj, Some (TMerged obj))
      | [], [x] => Ok (TMerged (TUnwrap x), Some (TMerged (TInter flats)))
      | [], _ => Ok (TMerged (TInter flats), Some (TMerged (TInter flats)))
      | _, _ => Ok (TMerged (TInter (obj :: flats)), Some (TMerged (TInter (obj :: flats))))
      end)) = Ok r ->
      bind (omap_list (prop_of is_alnum is_numeric R inl args' ra opt) (filter (fun fl => negb (is_flat fl)) (live fs))) (fun props =>
      bind (omap_list (fun fl => flt (field_ty args' opt fl)) (filter is_flat (live fs))) (fun flats =>
      let props := match tag with Some (t, n0) => (quoted_head t, TLit n0) :: props | None => props end in
      let obj := TObj OStruct props in
      match props, flats with
      | _, [] => Ok (TMerged obj, Some (TMerged obj))
      | [], [x] => Ok (TMerged (TUnwrap x), Some (TMerged (TInter flats)))
      | [], _ => Ok (TMerged (TInter flats), Some (TMerged (TInter flats)))
      | _, _ => Ok (TMerged (TInter (obj :: flats)), Some (TMerged (TInter (obj :: flats))))
      end)) = Ok r' -> r_inst r r').
    { clear r r'. intros r r' H H'.
      apply bind_ok in H as (props & Hp & H). apply bind_ok in H as (flats & Hf & H).
      apply bind_ok in H' as (props' & Hp' & H'). apply bind_ok in H' as (flats' & Hf' & H').
      cbn zeta in H, H'.
      assert (Hprops : Forall2 (fun p p' => fst p = fst p' /\ inst (snd p) (snd p')) props props').
      { eapply omap_list_rel; [exact Hp | exact Hp' |]. intros x a a' Hx.
        apply filter_incl_in, filter_incl_in in Hx. rewrite forallb_forall in Hs, Hopt.
        apply prop_of_inst; auto. }
      assert (Hflats : Forall2 inst flats flats').
      { eapply omap_list_rel; [exact Hf | exact Hf' |]. intros x a a' Hx Ha Ha'.
        apply filter_incl_in, filter_incl_in in Hx. rewrite forallb_forall in Hs, Hopt.
        destruct (field_optional_ds args n opt x (Hs x Hx) (Hopt x Hx)) as [_ E2]. cbv beta in Ha, Ha'. rewrite E2 in Ha'.
        eapply Hflt; eassumption. }
      set (ps := match tag with Some (t, n0) => (quoted_head t, TLit n0) :: props | None => props end) in *.
      set (ps' := match tag with Some (t, n0) => (quoted_head t, TLit n0) :: props' | None => props' end) in *.
      assert (Hps : Forall2 (fun p p' => fst p = fst p' /\ inst (snd p) (snd p')) ps ps').
      { subst ps ps'. destruct tag as [[t n0]|]; [constructor; [split; [reflexivity|constructor]|]|]; exact Hprops. }
      clearbody ps ps'.
      assert (Hobj : inst (TObj OStruct ps) (TObj OStruct ps')) by (constructor; exact Hps).
      inversion Hps as [|p p' pr pr' Hpp Hpr]; subst; inversion Hflats as [|x x' fr fr' Hxx Hfr]; subst;
        try (inversion Hfr as [|y y' fr2 fr2' Hyy Hfr2]; subst);
        inversion H; inversion H'; subst; split; cbn [fst snd];
        repeat (first [exact Hobj | assumption | constructor]). }
    destruct fs as [|fl fs']; [destruct tag as [tg|]|]; try exact (Hmain r r').
    intros H H'; inversion H; inversion H'. apply r_inst_none; constructor.
Qed.

Lemma lone_field_src s fl : src_shape n s = true -> lone_field s = Some fl -> src_field n fl = true.
Proof.
  destruct s as [|[|f [|? ?]]|]; cbn; intros Hs H; try discriminate. inversion H; subst.
  apply andb_true_iff in Hs. tauto.
Qed.

Lemma inst_qh k a a' : inst a a' ->
  Forall2 (fun p p' => fst p = fst p' /\ inst (snd p) (snd p')) [(quoted_head k, a)] [(quoted_head k, a')].
Proof. intros H. constructor; [split; [reflexivity|exact H]|constructor]. Qed.

Lemma variant_gen_inst a tg raf v x x' : src_variant n v = true -> opt_shape_ok NotOptional (v_shape v) = true ->
  variant_gen is_upper is_alnum is_numeric R inl flt args a tg raf v = Ok x ->
  variant_gen is_upper is_alnum is_numeric R inl flt args' a tg raf v = Ok x' -> inst x x'.
Proof.
  intros Hs Hopt. apply andb_true_iff in Hs as [Hsh Has]. unfold variant_gen.
  intros H H'. apply bind_ok in H as (vt & Hvt & H). apply bind_ok in H as (parsed & Hparsed & H).
  apply bind_ok in H' as (vt' & Hvt' & H'). apply bind_ok in H' as (parsed' & Hparsed' & H').
  assert (Hp : inst parsed parsed').
  { destruct (v_as v) as [u|].
    - rewrite (rsubst_dsubst args n _ Has) in Hparsed'. eapply name_of_inst; eassumption.
    - destruct (v_type v); inversion Hparsed; inversion Hparsed'; subst; [constructor|].
      cbn match in Hvt, Hvt'. destruct (shape_gen_inst _ _ _ _ _ _ Hsh Hopt Hvt Hvt') as [Hv1 _]. exact Hv1. }
  (* the two shapes have a flattened form or not together: it is decided by the fields and the tag alone *)
  assert (Hv2 : is_some (snd vt) = is_some (snd vt')).
  { apply variant_shape_cases in Hvt as [Hvt|(_ & _ & Hvt)]; apply variant_shape_cases in Hvt' as [Hvt'|(_ & _ & Hvt')];
      try apply shape_gen_flat in Hvt; try apply shape_gen_flat in Hvt'; congruence. }
  assert (Htag : forall t nm, inst (TObj OVariant [(quoted_head t, TLit nm)]) (TObj OVariant [(quoted_head t, TLit nm)])).
  { intros. constructor. apply inst_qh. constructor. }
  destruct (v_untagged v); [inversion H; inversion H'; subst; exact Hp|].
  destruct tg as [|t|t c|].
  - destruct (v_shape v) as [|fs|fs] eqn:Hshape.
    + inversion H; inversion H'. constructor.
    + destruct (lone_field (STuple fs)) as [fl|]; [destruct (f_skip fl)|]; inversion H; inversion H'; try constructor; apply inst_qh; exact Hp.
    + cbn in H, H'. inversion H; inversion H'. constructor. apply inst_qh; exact Hp.
  - destruct (snd vt) as [y|]; destruct (snd vt') as [y'|]; try discriminate Hv2; [inversion H; inversion H'; subst; exact Hp|].
    destruct (v_shape v) as [|fs|fs] eqn:Hshape.
    + inversion H; inversion H'. apply Htag.
    + destruct (lone_field (STuple fs)) as [fl|] eqn:Hlone.
      * destruct (f_skip fl); [inversion H; inversion H'; apply Htag|].
        inversion H; inversion H'. constructor. constructor; [apply Htag|]. constructor; [exact Hp|constructor].
      * inversion H; inversion H'. constructor. constructor; [apply Htag|]. constructor; [exact Hp|constructor].
    + cbn in H, H'. inversion H; inversion H'. constructor. constructor; [apply Htag|]. constructor; [exact Hp|constructor].
  - destruct (v_shape v) as [|fs|fs] eqn:Hshape.
    + inversion H; inversion H'. apply Htag.
    + destruct (lone_field (STuple fs)) as [fl|] eqn:Hlone.
      * destruct (f_skip fl); [inversion H; inversion H'; apply Htag|].
        inversion H; inversion H'. constructor. constructor; [split; [reflexivity|constructor]|]. apply inst_qh. exact Hp.
      * inversion H; inversion H'. constructor. constructor; [split; [reflexivity|constructor]|]. apply inst_qh. exact Hp.
    + cbn in H, H'. inversion H; inversion H'. constructor. constructor; [split; [reflexivity|constructor]|]. apply inst_qh. exact Hp.
  - inversion H; inversion H'; subst; exact Hp.
Qed.

Lemma def_body_inst d r r' : src_def d = true -> opt_def_ok d = true -> length (c_params (attrs_of d)) = n ->
  def_body is_upper is_alnum is_numeric R inl flt d args = Ok r ->
  def_body is_upper is_alnum is_numeric R inl flt d args' = Ok r' -> r_inst r r'.
Proof.
  intros Hs Hopt Hn. unfold src_def in Hs. rewrite Hn in Hs.
  apply andb_true_iff in Hs as [Hs Hbody]. apply andb_true_iff in Hs as [Has _].
  unfold def_body. destruct (c_type (attrs_of d)).
  - intros H H'; inversion H; inversion H'. apply r_inst_none; constructor.
  - destruct (c_as (attrs_of d)) as [u|].
    + rewrite (rsubst_dsubst args n _ Has). intros H H'.
      apply bind_ok in H as (x & Hx & H). apply bind_ok in H' as (x' & Hx' & H'). inversion H; inversion H'.
      apply r_inst_none. eapply Hinl; eassumption.
    + destruct d as [a s|a tg raf vs].
      * apply shape_gen_inst; assumption.
      * destruct vs as [|v vs]; [intros H H'; inversion H; inversion H'; apply r_inst_none; constructor|].
        intros H H'. apply bind_ok in H as (l & Hl & H). apply bind_ok in H' as (l' & Hl' & H').
        assert (Hall : Forall2 inst l l').
        { eapply omap_list_rel; [exact Hl | exact Hl' |]. intros x a0 a0' Hx.
          apply filter_incl_in in Hx. cbn [opt_def_ok] in Hopt. rewrite forallb_forall in Hbody, Hopt.
          apply variant_gen_inst; auto. }
        inversion Hall as [|x0 y0 l0 l0' Hxy Hrest]; subst; inversion H; inversion H'; subst.
        { apply r_inst_none; constructor. }
        split; cbn [fst snd]; repeat constructor; assumption.
Qed.
End Def.

(* ============================ the knot ===================================================== *)
Definition env_ok : Prop := forall id d, lookup R id = Some d -> src_def d = true /\ opt_def_ok d = true.

Theorem gen_inst : env_ok -> forall fuel, g_inst (gen fuel).
Proof.
  intros Henv. induction fuel as [|f IH]; intros id d args r r' Hlk H H'; [discriminate|].
  cbn [Gen.gen] in H, H'. cbv zeta in H, H'.
  destruct (Henv _ _ Hlk) as [Hsrc Hopt].
  eapply def_body_inst; [| |exact Hsrc|exact Hopt|reflexivity|exact H|exact H'].
  - apply lib_inline_inst. exact IH.
  - apply lib_flat_inst; [exact IH|]. intros u a Ha. exists f. exact Ha.
Qed.

End Subst.
