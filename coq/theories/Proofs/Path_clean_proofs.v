(* C04: import specifiers need no escaping.  Every function of Model/Path.v only rearranges the characters of its
   arguments and adds `/`, `.`, `j`, `s`; so the specifier `import_path` computes from clean strings (no quote, backslash
   or line break: `cleanb`) is clean, for all paths and working directories. *)
From TsRs Require Import Base.Str Base.Outcome Model.Path Spec.TsGrammar Spec.TsSyn Proofs.Gen_base_proofs.
From Coq Require Import List NArith Bool Lia.
Import ListNotations.
Open Scope N_scope.

Definition cclean (c : comp) : bool := match c with Normal n => cleanb n | _ => true end.

Lemma cleanb_app a b : cleanb (a ++ b) = cleanb a && cleanb b.
Proof. apply forallb_app. Qed.
Lemma cleanb_rev s : cleanb (rev s) = cleanb s.
Proof.
  unfold cleanb. induction s as [|x l IH]; [reflexivity|]. cbn [rev forallb]. rewrite forallb_app, IH. cbn [forallb]. rewrite andb_true_r. apply andb_comm.
Qed.
Lemma forallb_rev' {A} (f : A -> bool) l : forallb f (rev l) = forallb f l.
Proof.
  induction l as [|x l IH]; [reflexivity|]. cbn [rev forallb]. rewrite forallb_app, IH. cbn [forallb]. rewrite andb_true_r. apply andb_comm.
Qed.
Lemma forallb_flat_map {A B} (f : A -> list B) (p : A -> bool) (q : B -> bool) l :
  (forall x, p x = true -> forallb q (f x) = true) -> forallb p l = true -> forallb q (flat_map f l) = true.
Proof.
  intros H. induction l as [|x l IH]; cbn [flat_map forallb]; intros Hl; [reflexivity|]. apply andb_true_iff in Hl as [H1 H2].
  rewrite forallb_app, (H x H1), (IH H2). reflexivity.
Qed.
Lemma forallb_repeat' {A} (f : A -> bool) a n : f a = true -> forallb f (repeat a n) = true.
Proof. intros H. induction n as [|n IH]; [reflexivity|]. cbn [repeat forallb]. rewrite H, IH. reflexivity. Qed.

Lemma split_slash_clean s : cleanb s = true -> forallb cleanb (split_slash s) = true.
Proof.
  induction s as [|c r IH]; intros H; [reflexivity|]. change (cleanb (c :: r)) with (str_char c && cleanb r) in H.
  apply andb_true_iff in H as [Hc Hr]. specialize (IH Hr). cbn [split_slash]. destruct (c =? slash).
  - cbn [forallb]. rewrite IH. reflexivity.
  - destruct (split_slash r) as [|p ps].
    + cbn [forallb]. change (cleanb [c]) with (str_char c && true). rewrite Hc. reflexivity.
    + cbn [forallb] in IH |- *. apply andb_true_iff in IH as [Hp Hps]. change (cleanb (c :: p)) with (str_char c && cleanb p).
      rewrite Hc, Hp, Hps. reflexivity.
Qed.

Lemma comp_of_clean b piece : cleanb piece = true -> forallb cclean (comp_of b piece) = true.
Proof.
  intros H. unfold comp_of. destruct (str_eqb piece []); [reflexivity|]. destruct (str_eqb piece s_dot); [destruct b; reflexivity|].
  destruct (str_eqb piece s_dotdot); [reflexivity|]. cbn [forallb cclean]. rewrite H. reflexivity.
Qed.

Lemma components_clean s : cleanb s = true -> forallb cclean (components s) = true.
Proof.
  intros H. unfold components. destruct s as [|c r]; [reflexivity|].
  destruct (c =? slash).
  - cbn [forallb cclean]. change (cleanb (c :: r)) with (str_char c && cleanb r) in H. apply andb_true_iff in H as [_ Hr].
    apply (forallb_flat_map _ cleanb); [intros x; apply comp_of_clean | apply split_slash_clean; exact Hr].
  - pose proof (split_slash_clean _ H) as Hs. destruct (split_slash (c :: r)) as [|first rest]; [reflexivity|].
    cbn [forallb] in Hs. apply andb_true_iff in Hs as [H1 H2]. rewrite forallb_app, (comp_of_clean true first H1). cbn [andb].
    apply (forallb_flat_map _ cleanb); [intros x; apply comp_of_clean | exact H2].
Qed.

Lemma path_join_clean base p : cleanb base = true -> cleanb p = true -> cleanb (path_join base p) = true.
Proof.
  intros Hb Hp. unfold path_join. destruct (is_absolute p); [exact Hp|]. destruct (rev base) as [|c r]; [exact Hp|].
  destruct (c =? slash); rewrite ?cleanb_app, Hb, Hp; reflexivity.
Qed.

Lemma parent_comps_clean cs par : forallb cclean cs = true -> parent_comps cs = Some par -> forallb cclean par = true.
Proof.
  intros Hc H. unfold parent_comps in H. rewrite <- forallb_rev' in Hc. destruct (rev cs) as [|x r]; [discriminate|].
  cbn [forallb] in Hc. apply andb_true_iff in Hc as [_ Hr]. destruct x; try discriminate; inversion H; rewrite forallb_rev'; exact Hr.
Qed.

Lemma absolute_loop_clean : forall cs out res, forallb cclean out = true -> forallb cclean cs = true ->
  absolute_loop out cs = Ok res -> forallb cclean res = true.
Proof.
  induction cs as [|c r IH]; intros out res Ho Hc H; cbn [absolute_loop] in H; [inversion H; subst; exact Ho|].
  cbn [forallb] in Hc. apply andb_true_iff in Hc as [Hc1 Hc2]. destruct c as [| | |n].
  - apply (IH _ _ (eq_trans (forallb_app _ _ _) (f_equal2 andb Ho (eq_refl : forallb cclean [Root] = true))) Hc2 H).
  - exact (IH _ _ Ho Hc2 H).
  - rewrite <- forallb_rev' in Ho. destruct (rev out) as [|x o]; [discriminate|]. destruct x; try discriminate.
    cbn [forallb] in Ho. apply andb_true_iff in Ho as [_ Ho]. apply (IH _ _ (eq_trans (forallb_rev' _ _) Ho) Hc2 H).
  - refine (IH _ _ _ Hc2 H). rewrite forallb_app, Ho. cbn [forallb]. rewrite Hc1. reflexivity.
Qed.

Lemma map_normal_clean l : forallb cleanb l = true -> forallb cclean (map Normal l) = true.
Proof. induction l as [|x l IH]; cbn [map forallb cclean]; intros H; [reflexivity|]. apply andb_true_iff in H as [H1 H2]. rewrite H1, (IH H2). reflexivity. Qed.

Lemma joined_comps_clean cwd cs : forallb cleanb cwd = true -> forallb cclean cs = true -> forallb cclean (joined_comps cwd cs) = true.
Proof.
  intros Hw Hc. unfold joined_comps. destruct cs as [|c r]; [|destruct c]; try exact Hc; cbn [forallb cclean];
    rewrite forallb_app, (map_normal_clean _ Hw); cbn [andb]; exact Hc.
Qed.

Lemma absolute_comps_clean cwd cs res : forallb cleanb cwd = true -> forallb cclean cs = true ->
  absolute_comps cwd cs = Ok res -> forallb cclean res = true.
Proof.
  intros Hw Hc H. unfold absolute_comps in H. destruct (absolute_loop [] (joined_comps cwd cs)) as [l|m|m] eqn:E; try discriminate.
  pose proof (absolute_loop_clean _ [] _ (eq_refl : forallb cclean [] = true) (joined_comps_clean _ _ Hw Hc) E) as Hl.
  destruct l; inversion H; subst; [reflexivity | exact Hl].
Qed.

Lemma diff_comps_clean : forall b a, forallb cclean a = true -> forallb cclean (diff_comps a b) = true.
Proof.
  induction b as [|y b' IH]; intros a Ha.
  - destruct a; [reflexivity | exact Ha].
  - destruct a as [|x a']; cbn [diff_comps].
    + cbn [forallb cclean]. apply IH. reflexivity.
    + cbn [forallb] in Ha. apply andb_true_iff in Ha as [H1 H2]. destruct (comp_eqb x y); [apply IH; exact H2|].
      cbn [forallb cclean]. rewrite forallb_app, (forallb_repeat' cclean Parent _ eq_refl). cbn [forallb andb]. rewrite H1, H2. reflexivity.
Qed.

Lemma join_clean sep l : cleanb sep = true -> forallb cleanb l = true -> cleanb (join sep l) = true.
Proof.
  intros Hs. induction l as [|x r IH]; intros H; [reflexivity|]. cbn [forallb] in H. apply andb_true_iff in H as [H1 H2].
  destruct r as [|y r']; [exact H1|]. change (join sep (x :: y :: r')) with (x ++ sep ++ join sep (y :: r')).
  rewrite !cleanb_app, H1, Hs, (IH H2). reflexivity.
Qed.

Lemma comp_texts_clean cs : forallb cclean cs = true -> forallb cleanb (map comp_text cs) = true.
Proof.
  induction cs as [|c r IH]; cbn [map forallb]; intros H; [reflexivity|]. apply andb_true_iff in H as [H1 H2]. rewrite (IH H2), andb_true_r.
  destruct c; try reflexivity. exact H1.
Qed.

Lemma render_clean cs : forallb cclean cs = true -> cleanb (render cs) = true.
Proof.
  intros H. unfold render. destruct cs as [|c r]; [reflexivity|].
  destruct c; try (apply join_clean; [reflexivity | apply comp_texts_clean; exact H]).
Qed.

Lemma trim_start_fuel_clean : forall fuel p s, cleanb s = true -> cleanb (trim_start_matches_fuel fuel p s) = true.
Proof.
  induction fuel as [|f IH]; intros p s H; cbn [trim_start_matches_fuel]; [exact H|]. destruct p as [|x p']; [exact H|].
  destruct (strip_prefix (x :: p') s) as [r|] eqn:E; [|exact H]. apply strip_prefix_spec in E. subst s.
  rewrite cleanb_app in H. apply andb_true_iff in H as [_ Hr]. apply IH. exact Hr.
Qed.

Lemma trim_end_matches_clean p s : cleanb s = true -> cleanb (trim_end_matches p s) = true.
Proof.
  intros H. unfold trim_end_matches, trim_start_matches. rewrite cleanb_rev. apply trim_start_fuel_clean. rewrite cleanb_rev. exact H.
Qed.

Theorem import_path_clean esm cwd from imp rel : forallb cleanb cwd = true -> cleanb from = true -> cleanb imp = true ->
  import_path esm cwd from imp = Ok rel -> cleanb rel = true.
Proof.
  intros Hw Hf Hi H. unfold import_path in H. destruct (parent_comps (components from)) as [par|] eqn:Hp; [|discriminate].
  pose proof (parent_comps_clean _ _ (components_clean _ Hf) Hp) as Hpar.
  apply bind_ok in H as (d & Hd & H). unfold diff_paths in Hd. apply bind_ok in Hd as (p & Hp' & Hd). apply bind_ok in Hd as (b & Hb & Hd).
  inversion Hd; subst d. clear Hd.
  pose proof (absolute_comps_clean _ _ _ Hw (components_clean _ Hi) Hp') as Hpc.
  pose proof (diff_comps_clean b p Hpc) as Hdc. pose proof (render_clean _ Hdc) as Hr.
  assert (Hs : cleanb (match diff_comps p b with Normal _ :: _ => lit "./" ++ render (diff_comps p b) | _ => render (diff_comps p b) end) = true).
  { destruct (diff_comps p b) as [|c r]; [exact Hr|]. destruct c; exact Hr. }
  inversion H; subst rel. destruct esm; [rewrite cleanb_app|]; rewrite (trim_end_matches_clean _ _ Hs); reflexivity.
Qed.
