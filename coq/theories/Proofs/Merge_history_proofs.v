(* C05 at the level of export histories on one shared file, and of concurrent schedules.
   All statements are proved (Qed), closed under the global context. *)
From TsRs Require Import Base.Str Base.Outcome Gen.Tables Model.Merge Model.MergeSpec Model.MergeConc.
From TsRs Require Import Proofs.Merge_algebra_proofs Proofs.Merge_bridge_proofs.
From Coq Require Import Sorting.Permutation.

(* what the theorems assume about the items exported to the file: well-formed texts, distinct
   registry names, distinct sort keys, and import groups in the normal form generate_imports
   produces *)
Definition good_history (h : list item) : Prop :=
  Forall (fun i => wf_item i = true) h /\
  NoDup (map it_ident h) /\
  keys_distinct (map it_block h) /\
  Forall (fun i => norm_imports (it_imports i) = it_imports i) h.

(* ---- sequential histories ------------------------------------------------------------------ *)
Lemma NoDup_app_l {A} (l l' : list A) : NoDup (l ++ l') -> NoDup l.
Proof.
  induction l as [|a l IH]; cbn [app]; intros H; [constructor|].
  apply NoDup_cons_iff in H as [Ha Hl]. constructor; [|apply IH, Hl].
  intros Hin. apply Ha, in_or_app. left; exact Hin.
Qed.

Lemma good_history_app_l h1 h2 : good_history (h1 ++ h2) -> good_history h1.
Proof.
  unfold good_history, keys_distinct. rewrite !map_app.
  intros (Hw & Hn & Hk & Hi).
  apply Forall_app in Hw as [Hw _]. apply Forall_app in Hi as [Hi _].
  apply NoDup_app_l in Hn. apply NoDup_app_l in Hk.
  repeat split; assumption.
Qed.

Lemma good_history_perm h h' : good_history h -> Permutation h h' -> good_history h'.
Proof.
  unfold good_history, keys_distinct. intros (Hw & Hn & Hk & Hi) Hp.
  repeat split.
  - rewrite <- Hp. assumption.
  - eapply Permutation_NoDup; [|exact Hn]. apply Permutation_map. exact Hp.
  - eapply Permutation_NoDup; [|exact Hk]. apply Permutation_map, Permutation_map. exact Hp.
  - rewrite <- Hp. assumption.
Qed.

Lemma bind_assoc {A B C} (x : outcome A) (f : A -> outcome B) (g : B -> outcome C) :
  bind (bind x f) g = bind x (fun a => bind (f a) g).
Proof. destruct x; reflexivity. Qed.

Lemma bind_ok_r {A} (x : outcome A) : bind x Ok = x.
Proof. destruct x; reflexivity. Qed.

Lemma run_history_app st h1 h2 :
  run_history st (h1 ++ h2) = bind (run_history st h1) (fun st' => run_history st' h2).
Proof.
  revert st. induction h1 as [|i r IH]; intros st; cbn [app run_history]; [reflexivity|].
  rewrite bind_assoc. destruct (export_item st i) as [st'| |]; cbn [bind]; [apply IH|reflexivity..].
Qed.

Lemma run_history_snoc st h i :
  run_history st (h ++ [i]) = bind (run_history st h) (fun st' => export_item st' i).
Proof.
  rewrite run_history_app. destruct (run_history st h) as [st'| |]; cbn [bind run_history]; [|reflexivity..].
  apply bind_ok_r.
Qed.

Lemma existsb_str_eqb_false x l : ~ In x l -> existsb (str_eqb x) l = false.
Proof.
  intros H. destruct (existsb (str_eqb x) l) eqn:E; [|reflexivity].
  apply existsb_exists in E as (y & Hy & Hxy). apply str_eqb_eq in Hxy. subst y. contradiction.
Qed.

Lemma existsb_str_eqb_true x l : In x l -> existsb (str_eqb x) l = true.
Proof. intros H. apply existsb_exists. exists x. split; [exact H|apply str_eqb_refl]. Qed.

Lemma wf_items_groups h :
  Forall (fun i => wf_item i = true) h -> forallb wf_group (flat_map it_imports h) = true.
Proof.
  intros H. apply forallb_forall. intros g Hg.
  apply in_flat_map in Hg as (i & Hi & Hg).
  rewrite Forall_forall in H. specialize (H i Hi). unfold wf_item in H.
  apply andb_true_iff in H as [H _]. rewrite forallb_forall in H. apply H, Hg.
Qed.

Lemma wf_items_blocks h :
  Forall (fun i => wf_item i = true) h -> forallb wf_block (sort_blocks (map it_block h)) = true.
Proof.
  intros H. apply forallb_forall. intros b Hb.
  apply (Permutation_in _ (sort_blocks_permutation _)) in Hb.
  apply in_map_iff in Hb as (i & <- & Hi).
  rewrite Forall_forall in H. specialize (H i Hi). unfold wf_item in H.
  apply andb_true_iff in H as [_ H]. exact H.
Qed.

Lemma sort_blocks_nonempty bs : bs <> [] -> sort_blocks bs <> [].
Proof.
  intros Hne E. apply Hne. apply Permutation_nil.
  rewrite <- E. apply sort_blocks_permutation.
Qed.

Lemma canonical_file_single i :
  norm_imports (it_imports i) = it_imports i -> canonical_file [i] = item_text i.
Proof.
  intros H. unfold canonical_file, item_text. cbn [flat_map map]. rewrite app_nil_r, H. reflexivity.
Qed.

(* the state after any good non-empty history: canonical file, all names registered *)
Lemma run_history_canonical h :
  h <> [] -> good_history h ->
  run_history f_init h = Ok {| f_content := Some (canonical_file h); f_names := rev (map it_ident h) |}.
Proof.
  induction h as [|i h IH] using rev_ind; intros Hne Hg; [congruence|].
  destruct h as [|i0 h0].
  - (* first touch *)
    destruct Hg as (_ & _ & _ & Hi). apply Forall_inv in Hi.
    cbn [app run_history]. unfold export_item, export_raw. cbn [f_init f_content bind map rev app].
    rewrite (canonical_file_single _ Hi). reflexivity.
  - set (h := i0 :: h0) in *.
    assert (Hne' : h <> []) by (unfold h; discriminate).
    specialize (IH Hne' (good_history_app_l _ _ Hg)).
    rewrite run_history_snoc, IH. cbn [bind].
    destruct Hg as (Hw & Hn & Hk & Hi).
    unfold export_item, export_raw. cbn [f_content f_names].
    rewrite existsb_str_eqb_false.
    2:{ rewrite map_app in Hn. cbn [map] in Hn. apply NoDup_remove_2 in Hn.
        rewrite app_nil_r in Hn. rewrite <- in_rev. exact Hn. }
    apply Forall_app in Hw as [Hw Hwi]. apply Forall_inv in Hwi.
    unfold canonical_file at 1.
    rewrite merge_into_file_bridge.
    + cbn [bind]. unfold canonical_file.
      rewrite norm_imports_renorm, <- sort_blocks_snoc.
      rewrite flat_map_app, map_app, map_app, rev_app_distr. cbn [flat_map map rev app].
      rewrite app_nil_r. reflexivity.
    + apply norm_imports_idem.
    + apply norm_imports_wf, wf_items_groups, Hw.
    + apply sort_blocks_nonempty. unfold h. discriminate.
    + apply wf_items_blocks, Hw.
    + exact Hwi.
Qed.

Theorem file_after_canonical h :
  h <> [] -> good_history h -> file_after h = Ok (Some (canonical_file h)).
Proof.
  intros Hne Hg. unfold file_after. rewrite (run_history_canonical h Hne Hg). reflexivity.
Qed.

(* every order of export gives the same bytes *)
Theorem file_after_perm h h' :
  good_history h -> Permutation h h' -> file_after h = file_after h'.
Proof.
  intros Hg Hp. destruct h as [|i h].
  - apply Permutation_nil in Hp. subst h'. reflexivity.
  - assert (Hne' : h' <> []).
    { intros ->. apply Permutation_sym, Permutation_nil in Hp. discriminate. }
    rewrite (file_after_canonical (i :: h)); [|discriminate|exact Hg].
    rewrite (file_after_canonical h' Hne' (good_history_perm _ _ Hg Hp)).
    rewrite (canonical_file_perm (i :: h) h'); [reflexivity| |exact Hp].
    apply Hg.
Qed.

(* every prefix of every order gives the canonical file of what was exported so far *)
Theorem file_after_prefix h h' p rest :
  good_history h -> Permutation h h' -> h' = p ++ rest -> p <> [] ->
  file_after p = Ok (Some (canonical_file p)).
Proof.
  intros Hg Hp -> Hne. apply file_after_canonical; [exact Hne|].
  eapply good_history_app_l, good_history_perm; eassumption.
Qed.

(* exporting again something already exported changes nothing, wherever it happens *)
Theorem file_after_reexport h1 h2 i :
  good_history (h1 ++ h2) -> In i h1 ->
  file_after (h1 ++ i :: h2) = file_after (h1 ++ h2).
Proof.
  intros Hg Hin. unfold file_after. f_equal.
  rewrite !run_history_app.
  assert (Hne : h1 <> []) by (intros ->; destruct Hin).
  rewrite (run_history_canonical h1 Hne (good_history_app_l _ _ Hg)).
  cbn [bind run_history]. unfold export_item at 1, export_raw. cbn [f_content f_names].
  rewrite existsb_str_eqb_true; [reflexivity|].
  rewrite <- in_rev. apply in_map, Hin.
Qed.

(* every declaration is in the final file, intact, doc comment included *)
Theorem file_after_lossless h i :
  good_history h -> In i h ->
  exists pre post, file_after h = Ok (Some (pre ++ [nl] ++ it_block i ++ [nl] ++ post)).
Proof.
  intros Hg Hin.
  assert (Hne : h <> []) by (intros ->; destruct Hin).
  destruct (canonical_file_lossless h i Hin) as (pre & post & E).
  exists pre, post. rewrite (file_after_canonical h Hne Hg), E. reflexivity.
Qed.

(* ---- concurrent schedules ------------------------------------------------------------------ *)
(* set_nth *)
Lemma set_nth_nil {A} n (x : A) : set_nth n x [] = [].
Proof. destruct n; reflexivity. Qed.

Lemma set_nth_S {A} n (x a : A) l : set_nth (S n) x (a :: l) = a :: set_nth n x l.
Proof. reflexivity. Qed.

Lemma set_nth_length {A} n (x : A) l : length (set_nth n x l) = length l.
Proof.
  revert n. induction l as [|a l IH]; intros n; [rewrite set_nth_nil; reflexivity|].
  destruct n; [reflexivity|]. rewrite set_nth_S. cbn [length]. rewrite IH. reflexivity.
Qed.

Lemma nth_error_set_nth_eq {A} n (x y : A) l :
  nth_error l n = Some y -> nth_error (set_nth n x l) n = Some x.
Proof.
  revert n. induction l as [|a l IH]; intros n; [destruct n; discriminate|].
  destruct n; [reflexivity|]. rewrite set_nth_S. cbn [nth_error]. apply IH.
Qed.

Lemma nth_error_set_nth_neq {A} n m (x : A) l :
  n <> m -> nth_error (set_nth n x l) m = nth_error l m.
Proof.
  revert n m. induction l as [|a l IH]; intros n m Hnm; [rewrite set_nth_nil; reflexivity|].
  destruct n.
  - destruct m; [congruence|reflexivity].
  - rewrite set_nth_S. destruct m; [reflexivity|]. cbn [nth_error]. apply IH. congruence.
Qed.

Lemma nth_error_repeat_lt {A} (x : A) n k : (k < n)%nat -> nth_error (repeat x n) k = Some x.
Proof.
  revert k. induction n as [|n IH]; intros k Hk; [inversion Hk|].
  destruct k; [reflexivity|]. cbn [repeat nth_error]. apply IH. apply PeanoNat.Nat.succ_lt_mono. exact Hk.
Qed.

Definition dflt_item : item := {| it_ident := []; it_imports := []; it_block := [] |}.
Definition its (items : list item) (ord : list nat) : list item :=
  map (fun k => nth k items dflt_item) ord.

Lemma its_seq items : its items (seq 0 (length items)) = items.
Proof.
  unfold its. induction items as [|a l IH]; [reflexivity|].
  cbn [length seq map nth]. rewrite <- seq_shift, map_map. cbn [nth]. rewrite IH. reflexivity.
Qed.

Lemma its_perm items ord :
  Permutation ord (seq 0 (length items)) -> Permutation (its items ord) items.
Proof.
  intros H. rewrite <- (its_seq items) at 2. unfold its. apply Permutation_map, H.
Qed.

(* an export that succeeds leaves a written file *)
Lemma export_item_content st i st' : export_item st i = Ok st' -> f_content st' <> None.
Proof.
  unfold export_item, export_raw. destruct (f_content st) as [old|] eqn:Ec.
  - destruct (existsb (str_eqb (it_ident i)) (f_names st)).
    + intros [= <-]. congruence.
    + destruct (merge_into_file old (item_text i)); cbn [bind]; [|discriminate..].
      intros [= <-]. discriminate.
  - intros [= <-]. discriminate.
Qed.

Lemma run_history_none l : forall st s,
  run_history st l = Ok s -> f_content s = None -> s = st.
Proof.
  induction l as [|i l IH]; intros st s; cbn [run_history].
  - intros [= <-] _. reflexivity.
  - destruct (export_item st i) as [st'| |] eqn:E; cbn [bind]; [|discriminate..].
    intros Hr Hn. pose proof (IH _ _ Hr Hn) as ->.
    exfalso. exact (export_item_content _ _ _ E Hn).
Qed.

(* some export failed; never undone *)
Definition poisoned (st : cstate) : Prop :=
  exists j, nth_error (c_threads st) j = Some (TDone false).

(* thread holding the mutex, exporting i from the serial state s: its stage together with the shared
   state is an intermediate of `export_item s i` *)
Definition holder (s : fstate) (i : item) (stage : tstage) (sh : fstate) : Prop :=
  match stage with
  | TLocked => sh = s
  | TDecided None => sh = s /\ export_item s i = Ok s
  | TDecided (Some c) =>
      sh = s /\ export_item s i = Ok {| f_content := Some c; f_names := it_ident i :: f_names s |}
  | TWritten =>
      exists c, sh = {| f_content := Some c; f_names := f_names s |} /\
                export_item s i = Ok {| f_content := Some c; f_names := it_ident i :: f_names s |}
  | TInserted => export_item s i = Ok sh
  | TIdle | TDone _ => False
  end.

(* what does not depend on the holder's stage *)
Definition good_held (items : list item) (threads : list tstage) (ord : list nat)
                     (k : nat) (done : list nat) (s : fstate) (i : item) : Prop :=
  length threads = length items /\
  NoDup ord /\
  (forall j, In j ord -> (j < length items)%nat) /\
  (forall j, (j < length items)%nat -> ~ In j ord -> nth_error threads j = Some TIdle) /\
  ord = done ++ [k] /\
  (forall j, In j done -> nth_error threads j = Some (TDone true)) /\
  run_history f_init (its items done) = Ok s /\
  nth_error items k = Some i.

Definition good (items : list item) (st : cstate) (ord : list nat) : Prop :=
  match c_lock st with
  | None =>
      length (c_threads st) = length items /\
      NoDup ord /\
      (forall j, In j ord -> (j < length items)%nat) /\
      (forall j, (j < length items)%nat -> ~ In j ord -> nth_error (c_threads st) j = Some TIdle) /\
      (forall j, In j ord -> nth_error (c_threads st) j = Some (TDone true)) /\
      run_history f_init (its items ord) = Ok (c_shared st)
  | Some k =>
      exists done s i stage,
        good_held items (c_threads st) ord k done s i /\
        nth_error (c_threads st) k = Some stage /\
        holder s i stage (c_shared st)
  end.

Lemma NoDup_snoc_notin {A} (l : list A) k : NoDup (l ++ [k]) -> ~ In k l.
Proof. intros H. apply NoDup_remove_2 in H. rewrite app_nil_r in H. exact H. Qed.

Lemma good_held_set items threads ord k done s i stg :
  good_held items threads ord k done s i ->
  good_held items (set_nth k stg threads) ord k done s i.
Proof.
  intros (Hlen & Hnd & Hlt & Hidle & Hord & Hdone & Hrun & Hi).
  unfold good_held. rewrite set_nth_length.
  repeat split; try assumption.
  - intros j Hj Hnin. rewrite nth_error_set_nth_neq; [apply Hidle; assumption|].
    intros ->. apply Hnin. rewrite Hord. apply in_or_app. right. left. reflexivity.
  - intros j Hj. rewrite nth_error_set_nth_neq; [apply Hdone; assumption|].
    intros ->. subst ord. exact (NoDup_snoc_notin _ _ Hnd Hj).
Qed.

Lemma good_advance items st ord k done s i stage stg' sh' lk :
  good_held items (c_threads st) ord k done s i ->
  nth_error (c_threads st) k = Some stage ->
  holder s i stg' sh' ->
  lk = Some k ->
  good items {| c_shared := sh'; c_lock := lk; c_threads := set_nth k stg' (c_threads st) |} ord.
Proof.
  intros Hh Hk Hho ->. unfold good. cbn [c_lock c_threads c_shared].
  exists done, s, i, stg'. split; [apply good_held_set, Hh|]. split; [|exact Hho].
  eapply nth_error_set_nth_eq, Hk.
Qed.

Lemma good_release items st ord k done s i stage sh' :
  good_held items (c_threads st) ord k done s i ->
  nth_error (c_threads st) k = Some stage ->
  export_item s i = Ok sh' ->
  good items {| c_shared := sh'; c_lock := None; c_threads := set_nth k (TDone true) (c_threads st) |} ord.
Proof.
  intros Hh Hk Hex.
  pose proof (good_held_set _ _ _ _ _ _ _ (TDone true) Hh) as (Hlen & Hnd & Hlt & Hidle & Hord & Hdone & Hrun & Hi).
  unfold good. cbn [c_lock c_threads c_shared].
  repeat split; try assumption.
  - intros j Hj. rewrite Hord in Hj. apply in_app_or in Hj as [Hj|[<-|[]]].
    + apply Hdone, Hj.
    + eapply nth_error_set_nth_eq, Hk.
  - rewrite Hord. unfold its. rewrite map_app. cbn [map].
    change (map (fun k0 => nth k0 items dflt_item) done) with (its items done).
    rewrite run_history_snoc, Hrun. cbn [bind].
    rewrite (nth_error_nth _ _ dflt_item Hi). exact Hex.
Qed.

(* a thread in the middle of its critical section holds the mutex *)
Lemma good_active items st ord k stage :
  good items st ord -> nth_error (c_threads st) k = Some stage -> (k < length items)%nat ->
  stage <> TIdle -> stage <> TDone true ->
  c_lock st = Some k.
Proof.
  unfold good. intros Hg Hk Hlt Hni Hnd. destruct (c_lock st) as [k0|].
  - destruct Hg as (done & s & i & stg & (Hlen & Hnd' & Hlt' & Hidle & Hord & Hdone & Hrun & Hi) & Hstg & Hho).
    destruct (PeanoNat.Nat.eq_dec k0 k) as [->|Hne]; [reflexivity|]. exfalso.
    destruct (in_dec PeanoNat.Nat.eq_dec k done) as [Hin|Hnin].
    + rewrite (Hdone _ Hin) in Hk. congruence.
    + rewrite Hidle in Hk; [congruence|exact Hlt|].
      rewrite Hord. intros H. apply in_app_or in H as [H|[H|[]]]; [exact (Hnin H)|congruence].
  - destruct Hg as (Hlen & Hnd' & Hlt' & Hidle & Hdone & Hrun). exfalso.
    destruct (in_dec PeanoNat.Nat.eq_dec k ord) as [Hin|Hnin].
    + rewrite (Hdone _ Hin) in Hk. congruence.
    + rewrite Hidle in Hk; [congruence|exact Hlt|exact Hnin].
Qed.

Definition new_lock (items : list item) (st : cstate) (k : nat) : list nat :=
  match nth_error (c_threads st) k, c_lock st with
  | Some TIdle, None => if Nat.ltb k (length items) then [k] else []
  | _, _ => []
  end.

Lemma lock_order_from_cons items st k r :
  lock_order_from items st (k :: r)
  = new_lock items st k ++ lock_order_from items (micro_step items st k) r.
Proof.
  cbn [lock_order_from]. unfold new_lock.
  destruct (nth_error (c_threads st) k) as [[]|]; try reflexivity.
  destruct (c_lock st); reflexivity.
Qed.

Lemma micro_step_done items st k b :
  nth_error (c_threads st) k = Some (TDone b) -> micro_step items st k = st.
Proof. intros H. unfold micro_step. rewrite H. destruct (nth_error items k); reflexivity. Qed.

Lemma micro_step_threads items st k :
  c_threads (micro_step items st k) = c_threads st \/
  exists stg, c_threads (micro_step items st k) = set_nth k stg (c_threads st).
Proof.
  unfold micro_step.
  destruct (nth_error items k) as [i|]; [|left; reflexivity].
  destruct (nth_error (c_threads st) k) as [stage|]; [|left; reflexivity].
  destruct stage as [| |[c|]| | |b].
  - destruct (c_lock st); [left; reflexivity|right; eexists; reflexivity].
  - destruct (f_content (c_shared st)); [|right; eexists; reflexivity].
    destruct (existsb _ _); [right; eexists; reflexivity|].
    destruct (merge_into_file _ _); right; eexists; reflexivity.
  - right; eexists; reflexivity.
  - right; eexists; reflexivity.
  - right; eexists; reflexivity.
  - right; eexists; reflexivity.
  - left; reflexivity.
Qed.

Lemma poisoned_step items st k : poisoned st -> poisoned (micro_step items st k).
Proof.
  intros [j Hj]. destruct (PeanoNat.Nat.eq_dec k j) as [->|Hne].
  - rewrite (micro_step_done _ _ _ _ Hj). exists j. exact Hj.
  - exists j. destruct (micro_step_threads items st k) as [->|[stg ->]]; [exact Hj|].
    rewrite nth_error_set_nth_neq; assumption.
Qed.

Lemma tstage_eq_idle_done stage :
  stage = TIdle \/ (exists b, stage = TDone b) \/ (stage <> TIdle /\ forall b, stage <> TDone b).
Proof.
  destruct stage; try (right; right; split; [|intros ?]; discriminate).
  - left; reflexivity.
  - right; left; eexists; reflexivity.
Qed.

Lemma step_inv items st ord k :
  poisoned st \/ good items st ord ->
  poisoned (micro_step items st k) \/ good items (micro_step items st k) (ord ++ new_lock items st k).
Proof.
  intros [Hp|Hg]; [left; apply poisoned_step, Hp|].
  destruct (nth_error items k) as [i|] eqn:Ei.
  2:{ (* no such thread *)
      right. unfold micro_step, new_lock. rewrite Ei.
      apply nth_error_None in Ei. apply PeanoNat.Nat.ltb_ge in Ei. rewrite Ei.
      replace (match nth_error (c_threads st) k with Some TIdle => match c_lock st with Some _ => [] | None => [] end | _ => [] end)
        with (@nil nat).
      - rewrite app_nil_r. exact Hg.
      - destruct (nth_error (c_threads st) k) as [[]|]; try reflexivity. destruct (c_lock st); reflexivity. }
  assert (Hlt : (k < length items)%nat) by (apply nth_error_Some; congruence).
  assert (Hlen : length (c_threads st) = length items).
  { unfold good in Hg. destruct (c_lock st); [|apply Hg].
    destruct Hg as (? & ? & ? & ? & (H & _) & _). exact H. }
  destruct (nth_error (c_threads st) k) as [stage|] eqn:Et.
  2:{ apply nth_error_None in Et. rewrite Hlen in Et. exfalso.
      apply (PeanoNat.Nat.lt_irrefl k). eapply PeanoNat.Nat.lt_le_trans; eassumption. }
  destruct (tstage_eq_idle_done stage) as [->|[[b ->]|Hact]].
  - (* TIdle *)
    unfold micro_step, new_lock. rewrite Ei, Et.
    destruct (c_lock st) as [k0|] eqn:El.
    + right. rewrite app_nil_r. exact Hg.
    + right. apply PeanoNat.Nat.ltb_lt in Hlt as Hltb. rewrite Hltb.
      unfold good in Hg. rewrite El in Hg.
      destruct Hg as (_ & Hnd & Hlt' & Hidle & Hdone & Hrun).
      assert (Hnin : ~ In k ord).
      { intros H. rewrite (Hdone _ H) in Et. discriminate. }
      eapply (good_advance items st (ord ++ [k]) k ord (c_shared st) i TIdle TLocked);
        [|exact Et|reflexivity|reflexivity].
      unfold good_held. repeat split; try assumption.
      * eapply Permutation_NoDup; [apply Permutation_cons_append|]. constructor; assumption.
      * intros j Hj. apply in_app_or in Hj as [Hj|[<-|[]]]; [apply Hlt', Hj|exact Hlt].
      * intros j Hj Hn. apply Hidle; [exact Hj|]. intros H. apply Hn, in_or_app. left; exact H.
  - (* TDone *)
    right. rewrite (micro_step_done _ _ _ _ Et). unfold new_lock. rewrite Et, app_nil_r. exact Hg.
  - (* inside the critical section *)
    assert (El : c_lock st = Some k).
    { destruct Hact as [Hni Hnd]. eapply good_active; try eassumption. apply Hnd. }
    assert (Hnl : new_lock items st k = []).
    { unfold new_lock. rewrite Et, El. destruct stage; reflexivity. }
    rewrite Hnl, app_nil_r.
    unfold good in Hg. rewrite El in Hg.
    destruct Hg as (done & s & i' & stg & Hh & Hstg & Hho).
    rewrite Et in Hstg. injection Hstg as <-.
    assert (i' = i).
    { destruct Hh as (_ & _ & _ & _ & _ & _ & _ & Hi). congruence. }
    subst i'.
    assert (Hrun : run_history f_init (its items done) = Ok s) by apply Hh.
    unfold micro_step. rewrite Ei, Et.
    destruct stage as [| |[c|]| | |b]; cbn [holder] in Hho.
    + exfalso. apply (proj1 Hact). reflexivity.
    + (* TLocked *)
      rewrite Hho. destruct (f_content s) as [old|] eqn:Ec.
      * destruct (existsb (str_eqb (it_ident i)) (f_names s)) eqn:Ex.
        -- right. eapply good_advance; [exact Hh|exact Et| |exact El].
           cbn [holder]. split; [reflexivity|]. unfold export_item, export_raw. rewrite Ec, Ex. reflexivity.
        -- destruct (merge_into_file old (item_text i)) as [c|m|m] eqn:Em.
           ++ right. eapply good_advance; [exact Hh|exact Et| |exact El].
              cbn [holder]. split; [reflexivity|]. unfold export_item, export_raw. rewrite Ec, Ex, Em. reflexivity.
           ++ left. exists k. cbn [c_threads]. eapply nth_error_set_nth_eq, Et.
           ++ left. exists k. cbn [c_threads]. eapply nth_error_set_nth_eq, Et.
      * right. eapply good_advance; [exact Hh|exact Et| |exact El].
        cbn [holder]. split; [reflexivity|].
        pose proof (run_history_none _ _ _ Hrun Ec) as ->. reflexivity.
    + (* TDecided (Some c) *)
      destruct Hho as [Hsh Hex]. right. eapply good_advance; [exact Hh|exact Et| |exact El].
      cbn [holder]. exists c. rewrite Hsh. split; [reflexivity|exact Hex].
    + (* TDecided None *)
      destruct Hho as [Hsh Hex]. right. eapply good_advance; [exact Hh|exact Et| |exact El].
      cbn [holder]. rewrite Hsh. exact Hex.
    + (* TWritten *)
      destruct Hho as (c & Hsh & Hex). right. eapply good_advance; [exact Hh|exact Et| |exact El].
      cbn [holder]. rewrite Hsh. cbn [f_content f_names]. exact Hex.
    + (* TInserted *)
      right. eapply good_release; [exact Hh|exact Et|exact Hho].
    + destruct Hho.
Qed.

Lemma run_inv items sched : forall st ord,
  poisoned st \/ good items st ord ->
  poisoned (fold_left (micro_step items) sched st) \/
  good items (fold_left (micro_step items) sched st) (ord ++ lock_order_from items st sched).
Proof.
  induction sched as [|k r IH]; intros st ord H.
  - cbn [fold_left lock_order_from]. rewrite app_nil_r. exact H.
  - rewrite lock_order_from_cons, app_assoc. cbn [fold_left]. apply IH, step_inv, H.
Qed.

Lemma good_init items : good items (c_init (length items)) [].
Proof.
  unfold good, c_init. cbn [c_lock c_threads c_shared].
  repeat split.
  - apply repeat_length.
  - constructor.
  - intros j [].
  - intros j Hj _. apply nth_error_repeat_lt, Hj.
  - intros j [].
Qed.

Lemma all_done_nth st k stage :
  all_done st = true -> nth_error (c_threads st) k = Some stage -> stage = TDone true.
Proof.
  unfold all_done. rewrite forallb_forall. intros H Hk.
  specialize (H _ (nth_error_In _ _ Hk)). destruct stage as [| | | | |[|]]; try discriminate. reflexivity.
Qed.

Lemma all_done_good items st ord :
  all_done st = true -> poisoned st \/ good items st ord ->
  Permutation ord (seq 0 (length items)) /\ run_history f_init (its items ord) = Ok (c_shared st).
Proof.
  intros Hd [[j Hj]|Hg].
  - apply (all_done_nth _ _ _ Hd) in Hj. discriminate.
  - unfold good in Hg. destruct (c_lock st) as [k|].
    + exfalso. destruct Hg as (done & s & i & stage & _ & Hstg & Hho).
      rewrite (all_done_nth _ _ _ Hd Hstg) in Hho. exact Hho.
    + destruct Hg as (Hlen & Hnd & Hlt & Hidle & Hdone & Hrun). split; [|exact Hrun].
      apply NoDup_Permutation; [exact Hnd|apply seq_NoDup|].
      intros j. rewrite in_seq. split.
      * intros Hj. split; [apply PeanoNat.Nat.le_0_l|apply Hlt, Hj].
      * intros [_ Hj]. cbn in Hj.
        destruct (in_dec PeanoNat.Nat.eq_dec j ord) as [Hin|Hnin]; [exact Hin|exfalso].
        pose proof (Hidle _ Hj Hnin) as Hi. apply (all_done_nth _ _ _ Hd) in Hi. discriminate.
Qed.

(* Every schedule in which all threads finish is equivalent to the serial history in the order in
   which the threads took the mutex. *)
Theorem schedule_serializable items sched :
  good_history items ->
  all_done (run_schedule items sched) = true ->
  let order := lock_order items sched in
  Permutation order (seq 0 (length items)) /\
  Ok (c_shared (run_schedule items sched))
  = run_history f_init (map (fun k => nth k items {| it_ident := []; it_imports := []; it_block := [] |}) order).
Proof.
  intros _ Hd order.
  pose proof (run_inv items sched (c_init (length items)) [] (or_intror (good_init items))) as H.
  cbn [app] in H.
  destruct (all_done_good items _ _ Hd H) as [Hp Hr].
  split; [exact Hp|]. symmetry. exact Hr.
Qed.

(* hence the final file does not depend on the interleaving *)
Theorem schedule_confluent items sched :
  items <> [] -> good_history items ->
  all_done (run_schedule items sched) = true ->
  f_content (c_shared (run_schedule items sched)) = Some (canonical_file items).
Proof.
  intros Hne Hg Hd.
  destruct (schedule_serializable items sched Hg Hd) as [Hp Hr].
  fold dflt_item in Hr. fold (its items (lock_order items sched)) in Hr.
  apply its_perm in Hp. apply Permutation_sym in Hp.
  assert (Hne' : its items (lock_order items sched) <> []).
  { intros E. rewrite E in Hp. apply Permutation_sym, Permutation_nil in Hp. contradiction. }
  rewrite (run_history_canonical _ Hne' (good_history_perm _ _ Hg Hp)) in Hr.
  injection Hr as ->. cbn [f_content]. f_equal. symmetry.
  apply canonical_file_perm; [apply Hg|exact Hp].
Qed.
