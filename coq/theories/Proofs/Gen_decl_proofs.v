(* Corollaries of the scoping and instantiation theorems for declarations (C07, C14). *)
From TsRs Require Import Base.Str Base.Outcome Gen.Tables Model.Case Model.TsAst Model.Rust Model.Docs Model.Gen
  Spec.TsFree Spec.RtyInd Proofs.Gen_base_proofs Proofs.Gen_scoped_proofs Proofs.Gen_subst_proofs.
From Coq Require Import List Lia Bool.
Import ListNotations.

(* the instantiation that sends the i-th parameter name to the i-th argument *)
Fixpoint rho_of (ps : list str) (targs : list rty) (n : str) : option rty :=
  match ps, targs with
  | p :: ps', t :: ts' => if str_eqb p n then Some t else rho_of ps' ts' n
  | _, _ => None
  end.

Lemma str_eqb_refl s : str_eqb s s = true.
Proof. induction s as [|c s IH]; cbn; [reflexivity|]. rewrite N.eqb_refl. exact IH. Qed.

Lemma str_eqb_eq a b : str_eqb a b = true -> a = b.
Proof.
  revert b; induction a as [|c a IH]; destruct b as [|d b]; cbn; intros H; try discriminate; [reflexivity|].
  apply andb_true_iff in H as [H1 H2]. apply N.eqb_eq in H1. subst. f_equal. apply IH. exact H2.
Qed.

Lemma map_ds_dummies ps : NoDup ps -> forall targs, length ps = length targs ->
  map (dsubst (rho_of ps targs)) (map RDummy ps) = targs.
Proof.
  induction 1 as [|p ps Hnin Hnd IH]; intros [|t ts] Hlen; try discriminate; [reflexivity|].
  cbn [map dsubst rho_of]. rewrite str_eqb_refl. f_equal.
  transitivity (map (dsubst (rho_of ps ts)) (map RDummy ps)); [|apply IH; cbn in Hlen; lia].
  apply map_ext_in. intros x Hx. apply in_map_iff in Hx as (q & <- & Hq). cbn [dsubst rho_of].
  destruct (str_eqb p q) eqn:E; [|reflexivity].
  apply str_eqb_eq in E. subst. contradiction.
Qed.

Section Decl.
Variable is_upper is_alnum is_numeric : char -> bool.
Variable R : env.

Definition env_wf : Prop :=
  forall id d, lookup R id = Some d -> src_def d = true /\ opt_def_ok d = true.

(* the body of decl() instantiated at the arguments is the inline() form at those arguments *)
Theorem decl_body_instantiates : env_wf -> forall fuel id d targs r r',
  lookup R id = Some d ->
  NoDup (map fst (c_params (attrs_of d))) -> length targs = length (c_params (attrs_of d)) ->
  gen is_upper is_alnum is_numeric R fuel d (dummies (attrs_of d)) = Ok r ->
  gen is_upper is_alnum is_numeric R fuel d targs = Ok r' ->
  inst is_upper is_alnum is_numeric R (rho_of (map fst (c_params (attrs_of d))) targs) (fst r) (fst r').
Proof.
  intros Henv fuel id d targs r r' Hlk Hnd Hlen Hr Hr'.
  pose proof (gen_inst is_upper is_alnum is_numeric R (rho_of (map fst (c_params (attrs_of d))) targs) Henv fuel
                id d (dummies (attrs_of d)) r r' Hlk Hr) as Hi.
  unfold dummies in Hi. rewrite <- (map_map fst RDummy) in Hi. rewrite map_ds_dummies in Hi.
  - apply Hi. exact Hr'.
  - exact Hnd.
  - rewrite map_length. symmetry. exact Hlen.
Qed.

(* the parameter list of the declaration: the definition's type parameters, in order, each with the
   TypeScript name of its default *)
Theorem decl_params : forall fuel d dc,
  decl_of is_upper is_alnum is_numeric R fuel d = Ok dc ->
  d_name dc = ts_ident d /\
  Forall2 (fun p q => fst q = fst p /\
                      match snd p with
                      | None => snd q = None
                      | Some u => exists x, name_of R (rsubst (dummies (attrs_of d)) u) = Ok x /\ snd q = Some x
                      end) (c_params (attrs_of d)) (d_params dc).
Proof.
  intros fuel d dc H. unfold decl_of in H.
  apply bind_ok in H as (r & Hr & H). apply bind_ok in H as (ps & Hps & H). inversion H; subst; clear H. cbn [d_name d_params].
  split; [reflexivity|]. apply omap_list_ok in Hps.
  induction Hps as [|x y l l' Hxy _ IH]; constructor; [|exact IH].
  destruct (snd x) as [u|].
  - apply bind_ok in Hxy as (z & Hz & Hy). inversion Hy. cbn. split; [reflexivity|]. eauto.
  - inversion Hxy. cbn. split; reflexivity.
Qed.

(* a reference to an instantiation: the identifier applied to the names of the arguments *)
Theorem name_of_named : forall id d args l,
  lookup R id = Some d -> omap_list (name_of R) args = Ok l ->
  name_of R (RNamed id args) = Ok (TRef (ts_ident d) l).
Proof. intros id d args l Hlk Hl. cbn [name_of]. rewrite Hlk, Hl. reflexivity. Qed.

End Decl.
