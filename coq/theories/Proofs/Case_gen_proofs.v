(* C09, tied to the derive model and to the wire specification: the key the derive prints for a
   field and the literal it prints for a variant (Model/Gen.v: field_key, variant_name — explicit
   rename first, then rename_all, then the identifier) are the names serde_derive computes with ITS
   OWN two conversion routines (Spec/SerdeCase.v, case.rs), whenever serde_derive computes one.
   Spec/Serde.v states the wire format with Model/Case's routines; serde_key_is_spec_key is what
   makes that shortcut sound for C01/C02. *)
From TsRs Require Import Base.Str Base.Outcome Model.Case Model.Rust Model.Gen Spec.Serde Spec.SerdeCase Proofs.Case_proofs.

(* serde_derive: attr::Field::name / attr::Variant::name after rename_by_rules *)
Definition serde_field_key (is_upper : char -> bool) (rename_all : option rule) (f : field) : outcome str :=
  match f_rename f, rename_all with
  | Some n, _ => Ok n
  | None, Some r => serde_rename is_upper Field r (f_ident f)
  | None, None => Ok (f_ident f)
  end.
Definition serde_variant_name (is_upper : char -> bool) (rename_all : option rule) (v : variant) : outcome str :=
  match v_rename v, rename_all with
  | Some n, _ => Ok n
  | None, Some r => serde_rename is_upper Variant r (v_ident v)
  | None, None => Ok (v_ident v)
  end.

Lemma gen_field_key_agrees is_upper ra f n :
  serde_field_key is_upper ra f = Ok n -> Gen.field_key ra f = n.
Proof.
  unfold serde_field_key, Gen.field_key. destruct (f_rename f) as [m|]; [intros H; inversion H; reflexivity|].
  destruct ra as [r|]; [|intros H; inversion H; reflexivity].
  intros H. exact (rename_agrees is_upper Field r (f_ident f) n H).
Qed.

Lemma gen_variant_name_agrees is_upper ra v n :
  serde_variant_name is_upper ra v = Ok n -> Gen.variant_name is_upper ra v = n.
Proof.
  unfold serde_variant_name, Gen.variant_name. destruct (v_rename v) as [m|]; [intros H; inversion H; reflexivity|].
  destruct ra as [r|]; [|intros H; inversion H; reflexivity].
  intros H. exact (rename_agrees is_upper Variant r (v_ident v) n H).
Qed.

(* the wire specification used by C01/C02 names keys and tags as serde_derive does *)
Lemma spec_field_key_agrees is_upper ra f n :
  serde_field_key is_upper ra f = Ok n -> Serde.field_key ra f = n.
Proof. exact (gen_field_key_agrees is_upper ra f n). Qed.
Lemma spec_variant_name_agrees is_upper ra v n :
  serde_variant_name is_upper ra v = Ok n -> Serde.variant_name is_upper ra v = n.
Proof. exact (gen_variant_name_agrees is_upper ra v n). Qed.

(* an explicit rename is never converted, on either side *)
Lemma explicit_rename_wins is_upper ra f n : f_rename f = Some n ->
  Gen.field_key ra f = n /\ serde_field_key is_upper ra f = Ok n.
Proof. intros H. unfold Gen.field_key, serde_field_key. rewrite H. split; reflexivity. Qed.
