(* Inversion lemmas for the outcome monad and list helpers used by all proofs about Model/Gen.v. *)
From TsRs Require Import Base.Str Base.Outcome Model.TsAst Model.Rust Model.Gen.
From Coq Require Import List Lia.
Import ListNotations.

Lemma bind_ok {A B} (x : outcome A) (f : A -> outcome B) b :
  bind x f = Ok b -> exists a, x = Ok a /\ f a = Ok b.
Proof. destruct x as [a|m|m]; cbn; intros H; try discriminate. eauto. Qed.

Lemma omap_ok {A B} (f : A -> B) (x : outcome A) b :
  omap f x = Ok b -> exists a, x = Ok a /\ b = f a.
Proof. destruct x as [a|m|m]; cbn; intros H; try discriminate. inversion H. eauto. Qed.

Lemma omap_list_ok {A B} (f : A -> outcome B) l l' :
  omap_list f l = Ok l' -> Forall2 (fun x y => f x = Ok y) l l'.
Proof.
  revert l'. induction l as [|x l IH]; cbn; intros l' H.
  - inversion H. constructor.
  - destruct (f x) as [y|m|m] eqn:Hx; try discriminate.
    destruct (omap_list f l) as [ys|m|m] eqn:Hl; try discriminate.
    inversion H; subst. constructor; auto.
Qed.

Lemma omap_list_ok_inv {A B} (f : A -> outcome B) l l' :
  Forall2 (fun x y => f x = Ok y) l l' -> omap_list f l = Ok l'.
Proof. induction 1 as [|x y l l' Hx _ IH]; cbn; [reflexivity|]. rewrite Hx, IH. reflexivity. Qed.

Lemma oconcat_ok {A} (x : outcome (list (list A))) l :
  oconcat x = Ok l -> exists ll, x = Ok ll /\ l = concat ll.
Proof. apply omap_ok. Qed.

Lemma Forall2_flat_map_incl {A B C} (f : A -> list C) (g : B -> list C) l l' :
  Forall2 (fun x y => incl (g y) (f x)) l l' -> incl (flat_map g l') (flat_map f l).
Proof.
  induction 1 as [|x y l l' Hxy _ IH]; cbn; [apply incl_refl|].
  apply incl_app; [apply incl_appl; exact Hxy | apply incl_appr; exact IH].
Qed.

Lemma Forall2_concat_incl {A C} (f : A -> list C) (V : list C) (l : list A) (ll : list (list C)) :
  Forall2 (fun x y => incl y (f x)) l ll -> (forall x, In x l -> incl (f x) V) -> incl (concat ll) V.
Proof.
  induction 1 as [|x y l ll Hxy _ IH]; cbn; intros HV; [apply incl_nil_l|].
  apply incl_app; [eapply incl_tran; [exact Hxy | apply HV; left; reflexivity] | apply IH; intros; apply HV; right; assumption].
Qed.

Lemma Forall2_impl_in {A B} (P Q : A -> B -> Prop) l l' :
  Forall2 P l l' -> (forall x y, In x l -> P x y -> Q x y) -> Forall2 Q l l'.
Proof.
  induction 1 as [|x y l l' Hxy _ IH]; intros HPQ; constructor.
  - apply HPQ; [left; reflexivity | exact Hxy].
  - apply IH. intros; apply HPQ; [right|]; assumption.
Qed.

Lemma Forall2_Forall_l {A B} (P : A -> Prop) (Q : A -> B -> Prop) l l' :
  Forall P l -> Forall2 Q l l' -> Forall2 (fun x y => P x /\ Q x y) l l'.
Proof. intros HP H; induction H; inversion HP; subst; constructor; auto. Qed.

Lemma flat_map_repeat_incl {A B} (f : A -> list B) a n : incl (flat_map f (repeat a n)) (f a).
Proof. induction n; cbn; [apply incl_nil_l | apply incl_app; [apply incl_refl | assumption]]. Qed.

Lemma incl_flat_map_in {A B} (f : A -> list B) x l : In x l -> incl (f x) (flat_map f l).
Proof. intros Hin y Hy. apply in_flat_map. eauto. Qed.

Lemma flat_map_incl_all {A B} (f : A -> list B) l V : (forall x, In x l -> incl (f x) V) -> incl (flat_map f l) V.
Proof.
  induction l as [|x l IH]; cbn; intros H; [apply incl_nil_l|].
  apply incl_app; [apply H; left; reflexivity | apply IH; intros; apply H; right; assumption].
Qed.

Lemma filter_incl_in {A} (p : A -> bool) l x : In x (filter p l) -> In x l.
Proof. intros H; apply filter_In in H; tauto. Qed.

(* ---- the lazily read shape of a variant with `type` / `as` ------------------------------------- *)
Definition is_some {A} (o : option A) : bool := match o with Some _ => true | None => false end.

Lemma shape_gen_flat is_alnum is_numeric R inl flt args ra opt tag s r :
  shape_gen is_alnum is_numeric R inl flt args ra opt tag s = Ok r -> is_some (snd r) = has_flat_form tag s.
Proof.
  destruct s as [|fs|fs]; cbn [shape_gen has_flat_form].
  - intros H; inversion H; reflexivity.
  - destruct fs as [|f [|g fs']].
    + intros H; inversion H; reflexivity.
    + destruct (f_skip f); [intros H; inversion H; reflexivity|]. intros H. apply bind_ok in H as (x & _ & H). inversion H; reflexivity.
    + intros H. apply bind_ok in H as (x & _ & H). inversion H; reflexivity.
  - destruct fs as [|f fs'].
    + destruct tag as [[t n]|]; [|intros H; inversion H; reflexivity].
      intros H. apply bind_ok in H as (ps & _ & H). apply bind_ok in H as (fl & _ & H).
      destruct fl as [|x [|y l]]; inversion H; reflexivity.
    + intros H. apply bind_ok in H as (ps & _ & H). apply bind_ok in H as (fl & _ & H).
      destruct tag as [[t n]|]; destruct ps; destruct fl as [|x [|y l]]; inversion H; reflexivity.
Qed.

Lemma variant_shape_cases (sg : outcome derived) (va : option rty) (vty : option str) b vt :
  match va, vty with None, None => sg | _, _ => shape_lazy sg b end = Ok vt ->
  sg = Ok vt \/ ((va <> None \/ vty <> None) /\ fst vt = prim "never"%string /\ is_some (snd vt) = b).
Proof.
  destruct va as [u|]; [|destruct vty as [tx|]]; try (intros H; left; exact H);
    (destruct sg as [r|m|m]; cbn [shape_lazy]; intros H; [left; exact H | discriminate |
       right; inversion H; subst; cbn [fst snd]; split; [(left; discriminate) || (right; discriminate) | split; [reflexivity | destruct b; reflexivity]]]).
Qed.
