(* C04: the text export_to_string produces is a module of the grammar of Spec/TsGrammar.v whenever the
   decidable check export_okb passes on the pieces the export is made of (import map, doc block,
   declaration).  export_okb is evaluated on every exported corpus type on every run. *)
From TsRs Require Import Base.Str Base.Outcome Gen.Tables Model.Case Model.TsAst Model.Rust Model.Docs Model.Gen
  Model.Path Model.Merge Model.GenExport Spec.TsGrammar Spec.TsSyn Proofs.Gen_base_proofs Proofs.Grammar_proofs.
From Coq Require Import List Lia Bool.
Import ListNotations.

Section ExportGrammar.
Variable is_upper is_alnum is_numeric : char -> bool.
Variable R : env.
Variable esm : bool.
Variable cwd : list str.

(* the pieces of export_to_string::<T>(): import map, doc block, declaration *)
Definition export_parts (fuel : nat) (t : rty) (dir : str) : outcome (imports_map * str * tsdecl) :=
  match out_path R (without_generics t) with
  | None => Err err_cannot_export
  | Some _ =>
      bind (dependencies_of R fuel (without_generics t)) (fun deps =>
      bind (import_groups R esm cwd (without_generics t) dir deps) (fun m =>
      match t with
      | RNamed id _ =>
          match lookup R id with
          | Some d => bind (decl_of is_upper is_alnum is_numeric R fuel d) (fun dc => Ok (m, parse_docs (c_docs (attrs_of d)), dc))
          | None => Panic (lit "unknown type")
          end
      | _ => Panic (lit "cannot be declared")
      end))
  end.

Definition export_okb (fuel : nat) (t : rty) (dir : str) : bool :=
  match export_parts fuel t dir with
  | Ok (m, docs, dc) => imports_okb is_alnum is_numeric m && docs_okb docs && decl_ok is_alnum is_numeric dc
  | _ => false
  end.

Lemma export_string_parts fuel t dir s :
  export_string is_upper is_alnum is_numeric R esm cwd fuel t dir = Ok s ->
  exists m docs dc, export_parts fuel t dir = Ok (m, docs, dc) /\
    s = NOTE ++ (render_imports m ++ [nl]) ++ (docs ++ lit "export " ++ print_decl dc) ++ [nl].
Proof.
  intros H. unfold export_string in H.
  apply bind_ok in H as (imports & Hi & H). apply bind_ok in H as (decl & Hd & H). inversion H; subst; clear H.
  unfold gen_decl in Hd. destruct t as [| | | | | | | | |id args| |]; try discriminate.
  destruct (lookup R id) as [d|] eqn:Hlk; [|discriminate].
  apply bind_ok in Hd as (txt & Htxt & Hd). inversion Hd; subst; clear Hd.
  unfold decl_text in Htxt. apply omap_ok in Htxt as (dc & Hdc & ->).
  unfold gen_imports in Hi. unfold export_parts.
  destruct (out_path R (without_generics (RNamed id args))); [|discriminate].
  apply bind_ok in Hi as (deps & Hdeps & Hi). apply bind_ok in Hi as (m & Hm & Hi). inversion Hi; subst; clear Hi.
  exists m, (parse_docs (c_docs (attrs_of d))), dc. rewrite Hdeps. cbn [bind]. rewrite Hm. cbn [bind]. rewrite Hlk, Hdc. cbn [bind].
  split; reflexivity.
Qed.

Theorem export_parses fuel t dir s :
  classes_ok is_alnum is_numeric = true ->
  export_string is_upper is_alnum is_numeric R esm cwd fuel t dir = Ok s ->
  export_okb fuel t dir = true ->
  module is_alnum is_numeric s.
Proof.
  intros Hcls Hs Hok. destruct (export_string_parts _ _ _ _ Hs) as (m & docs & dc & Hp & ->).
  unfold export_okb in Hok. rewrite Hp in Hok. apply andb_true_iff in Hok as [Hok Hdc]. apply andb_true_iff in Hok as [Hm Hd].
  apply export_text_in_grammar; assumption.
Qed.
End ExportGrammar.
