(* C03, the other inclusion: the generated visit_dependencies() hands the visitor nothing the generated text does not
   mention — every exportable type among the dependencies of a definition is named in its declaration — for every
   environment in which no type parameter has a default (a defaulted parameter is visited whether or not the argument
   replaces it: the known class of C03) and no zero-length array occurs (`[Foo; 0]` is declared `[]` and visits Foo all the
   same — which C12 demands of every library type: a known class of C03 found by this proof), every definition, all type
   arguments, every fuel.  With Proofs/Gen_refs_proofs.v the two sets are equal there. *)
From TsRs Require Import Base.Str Base.Outcome Gen.Tables Model.Case Model.TsAst Model.Rust Model.Docs Model.Gen
  Spec.TsFree Spec.RtyInd Proofs.Gen_base_proofs Proofs.Gen_refs_proofs.
From Coq Require Import List Lia Bool.
Import ListNotations.

(* no zero-length array anywhere in a type *)
Fixpoint nz (t : rty) : bool :=
  match t with
  | RLeaf _ | RParam _ | RDummy _ => true
  | RArray n u => negb (Nat.eqb n 0) && nz u
  | ROption u | RVec u | RWrap u | RRange u => nz u
  | RTuple ts => forallb nz ts
  | RMap k v | RResult k v => nz k && nz v
  | RNamed _ args => forallb nz args
  end.
Definition nz_field (f : field) : bool := nz (f_ty f).
Definition nz_shape (s : shape) : bool := match s with SUnit => true | STuple fs | SNamed fs => forallb nz_field fs end.
Definition nz_def (d : typedef) : bool :=
  match c_as (attrs_of d) with Some u => nz u | None => true end &&
  match d with
  | DStruct _ s => nz_shape s
  | DEnum _ _ _ vs => forallb (fun v => nz_shape (v_shape v) && match v_as v with Some u => nz u | None => true end) vs
  end.

Definition no_defaults (d : typedef) : bool :=
  forallb (fun p : str * option rty => match snd p with None => true | Some _ => false end) (c_params (attrs_of d)).
(* a variant with `as` whose own shape is a unit or a lone skipped field is printed as its name alone, the `as` type is visited
   all the same (excluded) *)
Definition variant_exact (v : variant) : bool :=
  match v_as v with
  | Some _ => negb (is_unit (v_shape v)) && match lone_field (v_shape v) with Some fl => negb (f_skip fl) | None => true end
  | None => true
  end.
Definition def_exact (d : typedef) : bool :=
  no_defaults d && nz_def d && match d with DEnum _ _ _ vs => forallb variant_exact vs | _ => true end.
Definition no_defaults_env (R : env) : bool := forallb (fun p => def_exact (snd p)) R.

Section Rev.
Variable is_upper is_alnum is_numeric : char -> bool.
Variable R : env.
Hypothesis Hnd : no_defaults_env R = true.

Notation name_of := (name_of R).
Notation lib_inline := (lib_inline R).
Notation lib_flat := (lib_flat R).
Notation lib_vdeps := (lib_vdeps R).
Notation gen := (gen is_upper is_alnum is_numeric R).
Notation deps := (deps R).
Notation eid := (eid R).
Notation eids := (eids R).

Lemma lookup_in' id d : forall (R' : env), lookup R' id = Some d -> In (id, d) R'.
Proof.
  induction R' as [|[k x] r IH]; cbn [lookup]; intros H; [discriminate|].
  destruct (str_eqb k id) eqn:E; [inversion H; subst; apply str_eqb_eq in E; subst; left; reflexivity | right; exact (IH H)].
Qed.

Lemma default_deps_nil id d args : lookup R id = Some d -> default_deps (attrs_of d) args = [].
Proof.
  intros Hl. unfold no_defaults_env in Hnd. rewrite forallb_forall in Hnd. specialize (Hnd _ (lookup_in' id d R Hl)). cbn [snd] in Hnd.
  unfold def_exact in Hnd. apply andb_true_iff in Hnd as [Hnd _]. apply andb_true_iff in Hnd as [Hnd _]. unfold no_defaults in Hnd. unfold default_deps. induction (c_params (attrs_of d)) as [|p ps IH]; [reflexivity|].
  cbn [forallb flat_map] in *. apply andb_true_iff in Hnd as [H1 H2]. destruct (snd p); [discriminate|]. exact (IH H2).
Qed.

Lemma env_nz id d : lookup R id = Some d -> nz_def d = true.
Proof.
  intros Hl. unfold no_defaults_env in Hnd. rewrite forallb_forall in Hnd. specialize (Hnd _ (lookup_in' id d R Hl)). cbn [snd] in Hnd.
  unfold def_exact in Hnd. apply andb_true_iff in Hnd as [Hnd _]. apply andb_true_iff in Hnd as [_ Hnd]. exact Hnd.
Qed.

Lemma nth_nz args i d0 : forallb nz args = true -> nz d0 = true -> nz (nth i args d0) = true.
Proof.
  revert i. induction args as [|x l IH]; intros [|i] Ha Hd; cbn [nth]; try exact Hd; cbn [forallb] in Ha; apply andb_true_iff in Ha as [H1 H2];
    [exact H1 | apply IH; assumption].
Qed.
Lemma map_nz (f : rty -> rty) ts : Forall (fun t => nz t = true -> nz (f t) = true) ts -> forallb nz ts = true -> forallb nz (map f ts) = true.
Proof.
  induction 1 as [|x l Hx _ IH]; cbn [map forallb]; intros H; [reflexivity|]. apply andb_true_iff in H as [H1 H2]. rewrite (Hx H1), (IH H2). reflexivity.
Qed.
Lemma nz_rsubst args : forallb nz args = true -> forall t, nz t = true -> nz (rsubst args t) = true.
Proof.
  intros Ha. induction t as [l|t IH|t IH|n t IH|ts IH|k v IHk IHv|t IH|t e IHt IHe|t IH|id targs IH|i|n] using rty_ind';
    cbn [nz rsubst]; intros Hc; auto.
  - apply andb_true_iff in Hc as [H1 H2]. rewrite H1, (IH H2). reflexivity.
  - apply map_nz; assumption.
  - apply andb_true_iff in Hc as [H1 H2]. rewrite (IHk H1), (IHv H2). reflexivity.
  - apply andb_true_iff in Hc as [H1 H2]. rewrite (IHt H1), (IHe H2). reflexivity.
  - apply map_nz; assumption.
  - apply nth_nz; [exact Ha | reflexivity].
Qed.
Lemma nz_option_inner t : nz t = true -> nz (option_inner t) = true.
Proof. destruct t; cbn [option_inner nz]; auto. Qed.
Lemma nz_field_ty args opt fl : forallb nz args = true -> nz (f_ty fl) = true -> nz (field_ty args opt fl) = true.
Proof. intros Ha H. unfold field_ty. destruct (snd _); [|apply nz_option_inner]; apply nz_rsubst; assumption. Qed.
Lemma nz_dummies a : forallb nz (dummies a) = true.
Proof. unfold dummies. induction (c_params a) as [|p l IH]; [reflexivity|]. cbn [map forallb nz]. exact IH. Qed.

Lemma eid_leafish u : match u with RNamed _ _ => False | _ => True end -> eid u = [].
Proof. destruct u; intros H; try reflexivity. contradiction. Qed.

(* ---- name(): the exportable pushed types are all named ---- *)
Lemma args_push_rev ts l :
  Forall2 (fun x y => name_of x = Ok y) ts l ->
  Forall (fun t => nz t = true -> forall a, name_of t = Ok a -> incl (eids (t :: visit_generics t)) (refs a)) ts ->
  forallb nz ts = true ->
  incl (eids (flat_map (fun u => u :: visit_generics u) ts)) (flat_map refs l).
Proof.
  induction 1 as [|x y ts l Hxy _ IHl]; intros IH Hz; [apply incl_nil_l|].
  inversion IH as [|? ? H1 H2]; subst. cbn [forallb] in Hz. apply andb_true_iff in Hz as [Hz1 Hz2]. cbn [flat_map]. rewrite eids_app.
  apply incl_app; [apply incl_appl; apply H1; [exact Hz1 | exact Hxy] | apply incl_appr; apply IHl; [exact H2 | exact Hz2]].
Qed.

Lemma unary_push u : incl (eids (visit_generics u ++ [u])) (eids (u :: visit_generics u)).
Proof.
  rewrite eids_cons, eids_app. cbn [Gen_refs_proofs.eids flat_map]. rewrite app_nil_r.
  apply incl_app; [apply incl_appr | apply incl_appl]; apply incl_refl.
Qed.

Lemma eids_binary A k B v : eids (A ++ k :: B ++ [v]) = eids (A ++ [k]) ++ eids (B ++ [v]).
Proof. unfold Gen_refs_proofs.eids. rewrite !flat_map_app. cbn [flat_map]. rewrite !flat_map_app. cbn [flat_map]. rewrite ?app_nil_r, <- ?app_assoc. reflexivity. Qed.

Lemma name_refs_rev : forall t, nz t = true -> forall a, name_of t = Ok a -> incl (eids (push t)) (refs a).
Proof.
  unfold push.
  induction t as [l|t IH|t IH|n t IH|ts IH|k v IHk IHv|t IH|t e IHt IHe|t IH|id args IH|i|n] using rty_ind';
    cbn [Gen.name_of visit_generics nz]; intros Hz a H; rewrite eids_cons.
  - cbn. apply incl_nil_l.
  - apply bind_ok in H as (x & Hx & H). inversion H. cbn [Gen_refs_proofs.eid out_path app refs flat_map]. rewrite !app_nil_r.
    eapply incl_tran; [apply unary_push | apply IH; [exact Hz | exact Hx]].
  - apply bind_ok in H as (x & Hx & H). inversion H. cbn [Gen_refs_proofs.eid out_path app refs].
    eapply incl_tran; [apply unary_push | apply IH; [exact Hz | exact Hx]].
  - apply andb_true_iff in Hz as [Hn Hz]. destruct n as [|n']; [discriminate Hn|].
    apply bind_ok in H as (x & Hx & H). inversion H. cbn [Gen_refs_proofs.eid out_path app].
    eapply incl_tran; [apply unary_push|]. eapply incl_tran; [apply IH; [exact Hz | exact Hx] | apply refs_array_rev; lia].
  - apply bind_ok in H as (l & Hl & H). inversion H. cbn [refs Gen_refs_proofs.eid out_path app].
    apply omap_list_ok in Hl. apply args_push_rev; assumption.
  - apply andb_true_iff in Hz as [Hz1 Hz2]. apply bind_ok in H as (x & Hx & H). apply bind_ok in H as (y & Hy & H). inversion H. cbn [refs Gen_refs_proofs.eid out_path app].
    rewrite eids_binary.
    apply incl_app; [apply incl_appl | apply incl_appr]; (eapply incl_tran; [apply unary_push|]); [apply IHk | apply IHv]; assumption.
  - cbn [Gen_refs_proofs.eid out_path app]. eapply incl_tran; [apply unary_push | apply IH; [exact Hz | exact H]].
  - apply andb_true_iff in Hz as [Hz1 Hz2]. apply bind_ok in H as (x & Hx & H). apply bind_ok in H as (y & Hy & H). inversion H. cbn [refs Gen_refs_proofs.eid out_path app].
    rewrite eids_binary.
    apply incl_app; [apply incl_appl | apply incl_appr]; (eapply incl_tran; [apply unary_push|]); [apply IHt | apply IHe]; assumption.
  - apply bind_ok in H as (x & Hx & H). inversion H. cbn [refs flat_map snd Gen_refs_proofs.eid out_path app]. rewrite app_nil_r.
    apply incl_appl. eapply incl_tran; [apply unary_push | apply IH; [exact Hz | exact Hx]].
  - destruct (lookup R id) as [d|] eqn:Hlk; [|discriminate].
    apply bind_ok in H as (l & Hl & H). inversion H. cbn [refs]. unfold Gen_refs_proofs.eid at 1. cbn [out_path ident_of]. rewrite Hlk. cbn [app].
    apply incl_cons; [left; reflexivity|]. apply incl_tl.
    apply omap_list_ok in Hl. apply args_push_rev; assumption.
  - discriminate.
  - cbn. apply incl_nil_l.
Qed.

(* what a derived type visits, against what it answers *)
Definition g_rev (g : dgen) (gd : ddeps) : Prop :=
  forall id d args r l, lookup R id = Some d -> forallb nz args = true -> g d args = Ok r -> gd d args = Ok l ->
    incl (eids l) (refs (fst r)) /\ forall x, snd r = Some x -> incl (eids l) (refs x).

Lemma lib_inline_rev g gd : g_rev g gd ->
  forall t, nz t = true -> forall a l, lib_inline g t = Ok a -> lib_vdeps gd t = Ok l -> incl (eids l) (refs a).
Proof.
  intros Hg.
  induction t as [lf|t IH|t IH|n t IH|ts IH|k v IHk IHv|t IH|t e IHt IHe|t IH|id args IH|i|n] using rty_ind';
    cbn [Gen.lib_inline Gen.lib_vdeps nz]; intros Hz a l H Hd; try discriminate.
  - inversion Hd. apply incl_nil_l.
  - apply bind_ok in H as (x & Hx & H). inversion H. cbn [refs flat_map]. rewrite !app_nil_r. eauto.
  - apply bind_ok in H as (x & Hx & H). inversion H. cbn [refs]. eauto.
  - apply andb_true_iff in Hz as [Hn Hz]. destruct n as [|n']; [discriminate Hn|].
    apply bind_ok in H as (x & Hx & H). inversion H. eapply incl_tran; [eapply IH; eassumption | apply refs_array_rev; lia].
  - apply andb_true_iff in Hz as [Hz1 Hz2]. apply bind_ok in H as (x & Hx & H). apply bind_ok in H as (y & Hy & H). inversion H.
    apply bind_ok in Hd as (la & Hla & Hd). apply bind_ok in Hd as (lb & Hlb & Hd). inversion Hd.
    cbn [refs]. rewrite eids_app. apply incl_app; [apply incl_appl | apply incl_appr]; eauto.
  - eauto.
  - apply andb_true_iff in Hz as [Hz1 Hz2]. apply bind_ok in H as (x & Hx & H). apply bind_ok in H as (y & Hy & H). inversion H.
    apply bind_ok in Hd as (la & Hla & Hd). apply bind_ok in Hd as (lb & Hlb & Hd). inversion Hd.
    cbn [refs]. rewrite eids_app. apply incl_app; [apply incl_appl | apply incl_appr]; eauto.
  - destruct (lookup R id) as [d|] eqn:Hlk; [|discriminate].
    apply omap_ok in H as (r & Hr & ->). destruct (Hg _ _ _ _ _ Hlk Hz Hr Hd) as [H1 _]. exact H1.
Qed.

Lemma lib_flat_rev g gd : g_rev g gd ->
  forall t, nz t = true -> forall a l, lib_flat g t = Ok a -> lib_vdeps gd t = Ok l -> incl (eids l) (refs a).
Proof.
  intros Hg.
  induction t as [lf|t IH|t IH|n t IH|ts IH|k v IHk IHv|t IH|t e IHt IHe|t IH|id args IH|i|n] using rty_ind';
    cbn [Gen.lib_flat Gen.lib_vdeps nz]; intros Hz a l H Hd; try discriminate.
  - eauto.
  - destruct (lookup R id) as [d|] eqn:Hlk; [|discriminate].
    apply bind_ok in H as (r & Hr & H). destruct (Hg _ _ _ _ _ Hlk Hz Hr Hd) as [_ H2].
    destruct (snd r) as [x|]; [|discriminate]. inversion H; subst. apply H2. reflexivity.
  - inversion Hd. apply incl_nil_l.
Qed.

(* ---- derive layer ---- *)
Section Def.
Variable inl flt : rty -> outcome tsty.
Variable vdp : rty -> outcome (list rty).
Hypothesis Hinl : forall t, nz t = true -> forall a l, inl t = Ok a -> vdp t = Ok l -> incl (eids l) (refs a).
Hypothesis Hflt : forall t, nz t = true -> forall a l, flt t = Ok a -> vdp t = Ok l -> incl (eids l) (refs a).
Variable args : list rty.
Hypothesis Hargs : forallb nz args = true.

Lemma value_rev fl a l : nz_field fl = true -> value_ty R inl args fl = Ok a -> value_deps vdp args fl = Ok l -> incl (eids l) (refs a).
Proof.
  unfold value_ty, value_deps, nz_field. intros Hz. pose proof (nz_rsubst args Hargs _ Hz) as Hz'. destruct (f_type fl).
  - intros _ H; inversion H. apply incl_nil_l.
  - destruct (f_inline fl); intros H Hd; [eapply Hinl; eassumption|].
    inversion Hd. eapply name_refs_rev; [exact Hz' | exact H].
Qed.

Lemma prop_rev ra opt fl p l : nz_field fl = true -> is_flat fl = false ->
  prop_of is_alnum is_numeric R inl args ra opt fl = Ok p -> prop_deps vdp args opt fl = Ok l -> incl (eids l) (refs (snd p)).
Proof.
  unfold nz_field. intros Hz. pose proof (nz_field_ty args opt fl Hargs Hz) as Hz'.
  unfold prop_of, prop_deps, is_flat. destruct (f_type fl) as [txt|].
  - intros _ _ H; inversion H. apply incl_nil_l.
  - rewrite andb_true_r. intros Hnf H Hd. rewrite Hnf in Hd. cbn [orb] in Hd.
    apply bind_ok in H as (x & Hx & H). inversion H; subst. cbn [snd].
    destruct (f_inline fl); [eapply Hinl; eassumption|]. inversion Hd. eapply name_refs_rev; [exact Hz' | exact Hx].
Qed.

Lemma flat_rev opt fl a l : nz_field fl = true -> is_flat fl = true ->
  flt (field_ty args opt fl) = Ok a -> prop_deps vdp args opt fl = Ok l -> incl (eids l) (refs a).
Proof.
  unfold nz_field. intros Hz. pose proof (nz_field_ty args opt fl Hargs Hz) as Hz'.
  unfold prop_deps, is_flat. destruct (f_type fl) as [txt|]; [rewrite andb_false_r; discriminate|].
  rewrite andb_true_r. intros Hf H Hd. rewrite Hf in Hd. cbn [orb] in Hd. eapply Hflt; eassumption.
Qed.

Lemma concat_rev {A} (dp : A -> outcome (list rty)) all ll T :
  Forall2 (fun x dl => dp x = Ok dl) all ll -> (forall x dl, In x all -> dp x = Ok dl -> incl (eids dl) T) -> incl (eids (concat ll)) T.
Proof.
  rewrite eids_concat. induction 1 as [|x dl all ll Hx _ IH]; intros H; [apply incl_nil_l|]. cbn [flat_map].
  apply incl_app; [exact (H x dl (or_introl eq_refl) Hx) | apply IH; intros y dy Hy; apply H; right; exact Hy].
Qed.

Lemma in_flat_map_incl {X} (rf : X -> list str) a xs : In a xs -> incl (rf a) (flat_map rf xs).
Proof. intros Hin z Hz. apply in_flat_map. exists a. split; assumption. Qed.

Definition r_rev (r : derived) (l : list rty) : Prop :=
  incl (eids l) (refs (fst r)) /\ forall x, snd r = Some x -> incl (eids l) (refs x).
Lemma r_rev_nil r : r_rev r [].
Proof. split; [apply incl_nil_l | intros; apply incl_nil_l]. Qed.
Lemma r_rev_none a l : incl (eids l) (refs a) -> r_rev (a, None) l.
Proof. intros H; split; [exact H | discriminate]. Qed.

Lemma shape_rev ra opt tag s r l : nz_shape s = true ->
  shape_gen is_alnum is_numeric R inl flt args ra opt tag s = Ok r -> shape_deps vdp args opt s = Ok l -> r_rev r l.
Proof.
  intros Hzs. assert (Hzf : forall fs x, (s = STuple fs \/ s = SNamed fs) -> In x (live fs) -> nz_field x = true).
  { intros fs x Hs Hx. unfold live in Hx. apply filter_In in Hx as [Hx _]. destruct Hs as [-> | ->]; cbn [nz_shape] in Hzs; rewrite forallb_forall in Hzs; exact (Hzs x Hx). }
  revert Hzf. clear Hzs.
  unfold shape_gen, shape_deps. destruct s as [|fs|fs]; intros Hzf.
  - intros _ H; inversion H. apply r_rev_nil.
  - destruct fs as [|fl [|fl2 fs]].
    + intros _ H; inversion H. apply r_rev_nil.
    + destruct (f_skip fl) eqn:Es.
      * intros _ H; inversion H. apply r_rev_nil.
      * intros H Hd. apply bind_ok in H as (x & Hx & H). inversion H. apply r_rev_none. eapply value_rev; [|eassumption|eassumption].
        apply (Hzf [fl] fl (or_introl eq_refl)). unfold live. cbn [filter]. rewrite Es. left; reflexivity.
    + intros H Hd. apply bind_ok in H as (xs & Hxs & H). inversion H. apply r_rev_none. cbn [refs].
      apply oconcat_ok in Hd as (ll & Hll & ->). apply omap_list_ok in Hxs. apply omap_list_ok in Hll.
      apply (concat_rev _ _ _ _ Hll). intros x dl Hx Hdl. destruct (Forall2_in_l _ _ _ x Hxs Hx) as (a & Ha & Hxa).
      eapply incl_tran; [eapply value_rev; [exact (Hzf _ x (or_introl eq_refl) Hx) | eassumption | eassumption] | apply in_flat_map_incl; exact Ha].
  - intros H Hd. apply oconcat_ok in Hd as (ll & Hll & ->). apply omap_list_ok in Hll.
    assert (Hmain : forall r,
      bind (omap_list (prop_of is_alnum is_numeric R inl args ra opt) (filter (fun fl => negb (is_flat fl)) (live fs))) (fun props =>
      bind (omap_list (fun fl => flt (field_ty args opt fl)) (filter is_flat (live fs))) (fun flats =>
      let props := match tag with Some (t, n0) => (quoted_head t, TLit n0) :: props | None => props end in
      let obj := TObj OStruct props in
      match props, flats with
      | _, [] => Ok (TMerged obj, Some (TMerged obj))
      | [], [x] => Ok (TMerged (TUnwrap x), Some (TMerged (TInter flats)))
      | [], _ => Ok (TMerged (TInter flats), Some (TMerged (TInter flats)))
      | _, _ => Ok (TMerged (TInter (obj :: flats)), Some (TMerged (TInter (obj :: flats))))
      end)) = Ok r -> r_rev r (concat ll)).
    { clear r H. intros r H. apply bind_ok in H as (props & Hp & H). apply bind_ok in H as (flats & Hf & H).
      cbn zeta in H. apply omap_list_ok in Hp. apply omap_list_ok in Hf.
      assert (Hall : incl (eids (concat ll)) (flat_map (fun p => refs (snd p)) props ++ flat_map refs flats)).
      { apply (concat_rev _ _ _ _ Hll). intros x dl Hx Hdl. destruct (is_flat x) eqn:Efl.
        - assert (Hin : In x (filter is_flat (live fs))) by (apply filter_In; split; assumption).
          destruct (Forall2_in_l _ _ _ x Hf Hin) as (a & Ha & Hxa). apply incl_appr.
          eapply incl_tran; [eapply flat_rev; [exact (Hzf _ x (or_intror eq_refl) Hx) | eassumption | eassumption | eassumption] | apply in_flat_map_incl; exact Ha].
        - assert (Hin : In x (filter (fun fl => negb (is_flat fl)) (live fs))) by (apply filter_In; split; [assumption | rewrite Efl; reflexivity]).
          destruct (Forall2_in_l _ _ _ x Hp Hin) as (a & Ha & Hxa). apply incl_appl.
          eapply incl_tran; [eapply prop_rev; [exact (Hzf _ x (or_intror eq_refl) Hx) | eassumption | eassumption | eassumption] | exact (in_flat_map_incl (fun p => refs (snd p)) a props Ha)]. }
      set (props' := match tag with Some (t, n0) => (quoted_head t, TLit n0) :: props | None => props end) in *.
      assert (Hall' : incl (eids (concat ll)) (flat_map (fun p => refs (snd p)) props' ++ flat_map refs flats)).
      { subst props'. destruct tag as [[t n0]|]; cbn [flat_map snd refs app]; exact Hall. }
      clearbody props'. clear Hall.
      destruct props' as [|p ps]; destruct flats as [|x [|y fl']]; inversion H; subst; clear H;
        split; cbn [fst snd refs]; try (intros z Hz; inversion Hz; subst; clear Hz; cbn [refs]);
        cbn [flat_map refs app] in *; rewrite ?app_nil_r in *; auto. }
    destruct fs as [|fl fs']; [destruct tag as [tg|]|]; try exact (Hmain r H).
    inversion H. inversion Hll. apply r_rev_nil.
Qed.

Lemma variant_rev a tg raf v x l : variant_exact v = true ->
  nz_shape (v_shape v) && match v_as v with Some u => nz u | None => true end = true ->
  variant_gen is_upper is_alnum is_numeric R inl flt args a tg raf v = Ok x -> variant_deps vdp args v = Ok l ->
  incl (eids l) (refs x).
Proof.
  unfold variant_gen, variant_deps.
  intros Hex Hzv H Hd. apply andb_true_iff in Hzv as [Hzs Hza]. apply bind_ok in H as (vt & Hvt & H). apply bind_ok in H as (parsed & Hparsed & H).
  assert (Hp : incl (eids l) (refs parsed)).
  { destruct (v_as v) as [u|].
    - inversion Hd. eapply name_refs_rev; [exact (nz_rsubst args Hargs _ Hza) | exact Hparsed].
    - destruct (v_type v).
      + inversion Hd. apply incl_nil_l.
      + inversion Hparsed; subst. cbn match in Hvt. destruct (shape_rev _ _ _ _ _ _ Hzs Hvt Hd) as [Hv1 _]. exact Hv1. }
  (* printed as the name alone: nothing was visited *)
  assert (Hnil : is_unit (v_shape v) = true \/ (exists fl, lone_field (v_shape v) = Some fl /\ f_skip fl = true) -> l = []).
  { intros Hcase. unfold variant_exact in Hex. destruct (v_as v) as [u|].
    - apply andb_true_iff in Hex as [E1 E2]. destruct Hcase as [Hc|(fl & Hc1 & Hc2)]; [rewrite Hc in E1; discriminate | rewrite Hc1, Hc2 in E2; discriminate].
    - destruct (v_type v); [inversion Hd; reflexivity|]. destruct Hcase as [Hc|(fl & Hc1 & Hc2)].
      + destruct (v_shape v); try discriminate Hc. inversion Hd. reflexivity.
      + destruct (v_shape v) as [|[|f1 [|f2 fs']]|fs]; try discriminate Hc1. inversion Hc1; subst f1. cbn [shape_deps] in Hd. rewrite Hc2 in Hd. inversion Hd. reflexivity. }
  clear Hvt Hparsed Hd Hex.
  destruct (v_untagged v); [inversion H; subst; exact Hp|].
  destruct tg as [|t|t c|].
  - destruct (v_shape v) as [|[|fl [|fl2 fs']]|fs]; cbn [lone_field] in H, Hnil.
    + inversion H. rewrite Hnil by (left; reflexivity). apply incl_nil_l.
    + inversion H. cbn [refs flat_map snd app]. rewrite ?app_nil_r. exact Hp.
    + destruct (f_skip fl) eqn:Es; inversion H; [rewrite Hnil by (right; exists fl; auto); apply incl_nil_l|]. cbn [refs flat_map snd app]. rewrite ?app_nil_r. exact Hp.
    + inversion H. cbn [refs flat_map snd app]. rewrite ?app_nil_r. exact Hp.
    + inversion H. cbn [refs flat_map snd app]. rewrite ?app_nil_r. exact Hp.
  - destruct (snd vt); [inversion H; subst; exact Hp|].
    destruct (v_shape v) as [|[|fl [|fl2 fs']]|fs]; cbn [lone_field] in H, Hnil.
    + inversion H. rewrite Hnil by (left; reflexivity). apply incl_nil_l.
    + inversion H. cbn [refs flat_map snd app]. rewrite ?app_nil_r. exact Hp.
    + destruct (f_skip fl) eqn:Es; inversion H; [rewrite Hnil by (right; exists fl; auto); apply incl_nil_l|]. cbn [refs flat_map snd app]. rewrite ?app_nil_r. exact Hp.
    + inversion H. cbn [refs flat_map snd app]. rewrite ?app_nil_r. exact Hp.
    + inversion H. cbn [refs flat_map snd app]. rewrite ?app_nil_r. exact Hp.
  - destruct (v_shape v) as [|[|fl [|fl2 fs']]|fs]; cbn [lone_field] in H, Hnil.
    + inversion H. rewrite Hnil by (left; reflexivity). apply incl_nil_l.
    + inversion H. cbn [refs flat_map snd app]. rewrite ?app_nil_r. exact Hp.
    + destruct (f_skip fl) eqn:Es; inversion H; [rewrite Hnil by (right; exists fl; auto); apply incl_nil_l|]. cbn [refs flat_map snd app]. rewrite ?app_nil_r. exact Hp.
    + inversion H. cbn [refs flat_map snd app]. rewrite ?app_nil_r. exact Hp.
    + inversion H. cbn [refs flat_map snd app]. rewrite ?app_nil_r. exact Hp.
  - inversion H; subst; exact Hp.
Qed.

Lemma def_rev id d r l : lookup R id = Some d ->
  def_body is_upper is_alnum is_numeric R inl flt d args = Ok r -> def_deps vdp d args = Ok l -> r_rev r l.
Proof.
  intros Hlk. unfold def_body, def_deps. intros H Hd. apply omap_ok in Hd as (l0 & Hl0 & ->).
  rewrite (default_deps_nil id d args Hlk), app_nil_r.
  assert (Hvs : match d with DEnum _ _ _ vs => forallb variant_exact vs = true | _ => True end).
  { unfold no_defaults_env in Hnd. rewrite forallb_forall in Hnd. specialize (Hnd _ (lookup_in' id d R Hlk)). cbn [snd] in Hnd.
    unfold def_exact in Hnd. apply andb_true_iff in Hnd as [_ Hnd]. destruct d; [exact I | exact Hnd]. }
  pose proof (env_nz id d Hlk) as Hz. unfold nz_def in Hz. apply andb_true_iff in Hz as [Hza Hzd].
  destruct (c_type (attrs_of d)).
  - inversion Hl0. apply r_rev_nil.
  - destruct (c_as (attrs_of d)) as [u|].
    + apply bind_ok in H as (x & Hx & H). inversion H. apply r_rev_none. eapply Hinl; [exact (nz_rsubst args Hargs _ Hza) | eassumption | eassumption].
    + destruct d as [a s|a tg raf vs].
      * eapply shape_rev; eassumption.
      * destruct vs as [|v vs]; [inversion Hl0; apply r_rev_nil|]. remember (live_variants (v :: vs)) as lv eqn:Elv.
        apply bind_ok in H as (xs & Hxs & H).
        apply oconcat_ok in Hl0 as (ll & Hll & ->). apply omap_list_ok in Hxs. apply omap_list_ok in Hll.
        assert (Hall : incl (eids (concat ll)) (flat_map refs xs)).
        { apply (concat_rev _ _ _ _ Hll). intros y dl Hy Hdl. destruct (Forall2_in_l _ _ _ y Hxs Hy) as (b & Hb & Hyb).
          assert (Hye : variant_exact y = true).
          { rewrite forallb_forall in Hvs. apply Hvs. rewrite Elv in Hy. unfold live_variants in Hy. apply filter_In in Hy as [Hy _]. exact Hy. }
          assert (Hyz : nz_shape (v_shape y) && match v_as y with Some u => nz u | None => true end = true).
          { rewrite forallb_forall in Hzd. apply (Hzd y). rewrite Elv in Hy. unfold live_variants in Hy. apply filter_In in Hy as [Hy _]. exact Hy. }
          eapply incl_tran; [eapply variant_rev; eassumption | apply in_flat_map_incl; exact Hb]. }
        clear Elv. destruct xs as [|x0 xs0]; inversion H; subst.
        -- destruct lv; [|inversion Hxs]. inversion Hll. apply r_rev_nil.
        -- split; cbn [fst snd refs]; [exact Hall|]. intros x Hx; inversion Hx; subst. exact Hall.
Qed.
End Def.

(* ---- the knot ---- *)
Theorem gen_rev : forall fuel, g_rev (gen fuel) (deps fuel).
Proof.
  induction fuel as [|f IH]; intros id d args r l Hlk Ha H Hd; [discriminate|].
  cbn [Gen.gen Gen.deps] in H, Hd. cbv zeta in H, Hd.
  eapply def_rev; [| |exact Ha|exact Hlk|exact H|exact Hd].
  - apply lib_inline_rev. exact IH.
  - apply lib_flat_rev. exact IH.
Qed.

(* every exportable type among the dependencies of a declaration is named in its body *)
Theorem decl_deps_are_refs : forall fuel id d dc l,
  lookup R id = Some d ->
  decl_of is_upper is_alnum is_numeric R fuel d = Ok dc ->
  deps fuel d (dummies (attrs_of d)) = Ok l ->
  incl (eids l) (refs (d_body dc)).
Proof.
  intros fuel id d dc l Hlk H Hd. unfold decl_of in H.
  apply bind_ok in H as (r & Hr & H). apply bind_ok in H as (ps & Hps & H). inversion H; subst; clear H. cbn [d_body].
  destruct (gen_rev fuel id d _ r l Hlk (nz_dummies _) Hr Hd) as [H1 _]. exact H1.
Qed.
End Rev.
