(* A grammar for the fragment of TypeScript that ts-rs emits, written independently of the printer:
   character level, comments and white space allowed wherever TypeScript allows them, the usual
   precedence (postfix `[]` > `&` > `|`).  It is a sub-language of TypeScript's type syntax (every string
   derivable here is a TypeScript type / type alias declaration / module of `import type` and
   `export type` statements).  Definitions only; `Proofs/Grammar_proofs.v` shows that the printer's
   output is derivable. *)
From TsRs Require Import Base.Str.
From Coq Require Import List NArith Bool.
Import ListNotations.
Open Scope N_scope.

Section Grammar.
(* Unicode classes of identifier characters (ID_Continue is approximated by char::is_alphanumeric,
   as utils.rs does; ID_Start excludes what char::is_numeric accepts) *)
Variable is_alnum is_numeric : char -> bool.

Definition id_char (c : char) : bool := is_alnum c || (c =? 95) || (c =? 36).
Definition ident (s : str) : Prop :=
  forallb id_char s = true /\ match s with [] => False | c :: _ => is_numeric c = false end.

(* words that cannot name a type: reserved words (ECMAScript, strict mode) and the predefined type names *)
Definition reserved_words : list str := map lit
  ["break"; "case"; "catch"; "class"; "const"; "continue"; "debugger"; "default"; "delete"; "do"; "else"; "enum"; "export"; "extends";
   "false"; "finally"; "for"; "function"; "if"; "import"; "in"; "instanceof"; "new"; "null"; "return"; "super"; "switch"; "this";
   "throw"; "true"; "try"; "typeof"; "var"; "void"; "while"; "with"; "implements"; "interface"; "let"; "package"; "private";
   "protected"; "public"; "static"; "yield"]%string.
Definition predefined_types : list str := map lit
  ["any"; "unknown"; "number"; "bigint"; "boolean"; "string"; "symbol"; "void"; "never"; "object"; "undefined"; "null"]%string.
Definition reserved (s : str) : bool := existsb (str_eqb s) reserved_words.
Definition predefined (s : str) : bool := existsb (str_eqb s) predefined_types.
(* a name in type position: an identifier that is not a reserved word (predefined type names included), or `null` *)
Definition type_name (s : str) : Prop := (ident s /\ reserved s = false) \/ s = lit "null"%string.
(* a name that can be declared: neither reserved nor predefined *)
Definition decl_name (s : str) : Prop := ident s /\ reserved s = false /\ predefined s = false.

(* --- trivia: white space and comments ------------------------------------------------------ *)
Definition ws_char (c : char) : bool := (c =? 32) || (c =? 10) || (c =? 9) || (c =? 13).

(* `*/` does not occur in s *)
Fixpoint no_close (s : str) : bool :=
  match s with
  | 42 :: ((47 :: _) as r) => false
  | _ :: r => no_close r
  | [] => true
  end.

Inductive trivia : str -> Prop :=
| tr_nil : trivia []
| tr_ws c s : ws_char c = true -> trivia s -> trivia (c :: s)
| tr_block body s : no_close body = true -> trivia s ->                         (* /* body */ *)
    trivia ([47; 42] ++ body ++ [42; 47] ++ s)
| tr_line body s : forallb (fun c => negb (c =? 10)) body = true -> trivia s ->   (* // body \n *)
    trivia ([47; 47] ++ body ++ [10] ++ s).

(* --- string literals: no escapes are ever produced, so none are admitted ------------------- *)
Definition str_char (c : char) : bool := negb ((c =? 34) || (c =? 92) || (c =? 10) || (c =? 13) || (c =? 8232) || (c =? 8233)).
Definition string_lit (s : str) : Prop := exists body, s = [34] ++ body ++ [34] /\ forallb str_char body = true.

(* --- types ----------------------------------------------------------------------------------- *)
(* `A, B, C` with trivia around the commas *)
Inductive comma_list (P : str -> Prop) : str -> Prop :=
| cl_one s : P s -> comma_list P s
| cl_more s w1 w2 r : P s -> trivia w1 -> trivia w2 -> comma_list P r -> comma_list P (s ++ w1 ++ [44] ++ w2 ++ r).

Inductive ty : str -> Prop :=                                     (* UnionType *)
| ty_inter s : inter s -> ty s
| ty_union s1 w1 w2 s2 : ty s1 -> trivia w1 -> trivia w2 -> inter s2 -> ty (s1 ++ w1 ++ [124] ++ w2 ++ s2)
with inter : str -> Prop :=                                       (* IntersectionType *)
| in_post s : postfix s -> inter s
| in_and s1 w1 w2 s2 : inter s1 -> trivia w1 -> trivia w2 -> postfix s2 -> inter (s1 ++ w1 ++ [38] ++ w2 ++ s2)
with postfix : str -> Prop :=                                     (* ArrayType *)
| po_prim s : primary s -> postfix s
| po_array s w : postfix s -> trivia w -> postfix (s ++ [91] ++ w ++ [93])
with primary : str -> Prop :=
| pr_name n : type_name n -> primary n                                                                  (* TypeReference, predefined types *)
| pr_app n w1 w2 args w3 : type_name n -> trivia w1 -> trivia w2 -> targs args -> trivia w3 ->
    primary (n ++ w1 ++ [60] ++ w2 ++ args ++ w3 ++ [62])                                           (* Name<A, B> *)
| pr_lit s : string_lit s -> primary s                                                              (* LiteralType *)
| pr_paren w1 s w2 : trivia w1 -> ty s -> trivia w2 -> primary ([40] ++ w1 ++ s ++ w2 ++ [41])      (* ( T ) *)
| pr_tuple0 w : trivia w -> primary ([91] ++ w ++ [93])                                             (* [] *)
| pr_tuple w1 elems w2 : trivia w1 -> targs elems -> trivia w2 -> primary ([91] ++ w1 ++ elems ++ w2 ++ [93])
| pr_obj ms : members ms -> primary ([123] ++ ms ++ [125])                                          (* { members } *)
| pr_mapped w1 k w2 w3 kt w4 w5 w6 w7 v w8 :                                                        (* { [k in K]?: V } *)
    trivia w1 -> trivia w2 -> ident k -> trivia w3 -> ty kt -> trivia w4 -> trivia w5 -> trivia w6 -> trivia w7 -> ty v -> trivia w8 ->
    primary ([123] ++ w1 ++ [91] ++ w2 ++ k ++ [32] ++ w3 ++ [105; 110; 32] ++ w4 ++ kt ++ w5 ++ [93] ++ w6 ++ [63; 58] ++ w7 ++ v ++ w8 ++ [125])
with targs : str -> Prop :=                                       (* T (, T)* *)
| ta_one s : ty s -> targs s
| ta_more s w1 w2 r : ty s -> trivia w1 -> trivia w2 -> targs r -> targs (s ++ w1 ++ [44] ++ w2 ++ r)
with members : str -> Prop :=                                     (* PropertySignature separated by `,`; the last may omit it *)
| me_nil w : trivia w -> members w
| me_last w0 name q w1 w2 t w3 :
    trivia w0 -> (ident name \/ string_lit name) -> (q = [] \/ q = [63]) -> trivia w1 -> trivia w2 -> ty t -> trivia w3 ->
    members (w0 ++ name ++ q ++ w1 ++ [58] ++ w2 ++ t ++ w3)
| me_prop w0 name q w1 w2 t w3 rest :
    trivia w0 -> (ident name \/ string_lit name) -> (q = [] \/ q = [63]) -> trivia w1 -> trivia w2 -> ty t -> trivia w3 -> members rest ->
    members (w0 ++ name ++ q ++ w1 ++ [58] ++ w2 ++ t ++ w3 ++ [44] ++ rest).

(* --- declarations and modules ---------------------------------------------------------------- *)
(* type parameter: `T` or `T = Default` *)
Definition tparam (s : str) : Prop :=
  decl_name s \/ exists n w1 w2 d, decl_name n /\ trivia w1 /\ trivia w2 /\ ty d /\ s = n ++ w1 ++ [61] ++ w2 ++ d.

(* `type Name<Params> = T;` *)
Inductive alias : str -> Prop :=
| al_plain n w1 w2 w3 t w4 : decl_name n -> trivia w1 -> trivia w2 -> trivia w3 -> ty t -> trivia w4 ->
    alias (lit "type" ++ [32] ++ w1 ++ n ++ w2 ++ [61] ++ w3 ++ t ++ w4 ++ [59])
| al_generic n w1 w2 w3 ps w4 w5 w6 t w7 : decl_name n -> trivia w1 -> trivia w2 -> trivia w3 -> comma_list tparam ps -> trivia w4 ->
    trivia w5 -> trivia w6 -> ty t -> trivia w7 ->
    alias (lit "type" ++ [32] ++ w1 ++ n ++ w2 ++ [60] ++ w3 ++ ps ++ w4 ++ [62] ++ w5 ++ [61] ++ w6 ++ t ++ w7 ++ [59]).

(* `import type { A, B } from "spec";` *)
Inductive import_stmt : str -> Prop :=
| im_stmt w1 w2 w3 names w4 w5 w6 spec w7 :
    trivia w1 -> trivia w2 -> trivia w3 -> comma_list decl_name names -> trivia w4 -> trivia w5 -> trivia w6 -> string_lit spec -> trivia w7 ->
    import_stmt (lit "import" ++ [32] ++ w1 ++ lit "type" ++ w2 ++ [123] ++ w3 ++ names ++ w4 ++ [125] ++ w5 ++ lit "from" ++ w6 ++ spec ++ w7 ++ [59]).

(* a module: trivia, import statements, then `export` type aliases, trivia in between *)
Inductive exports : str -> Prop :=
| ex_nil w : trivia w -> exports w
| ex_more w1 w2 a rest : trivia w1 -> trivia w2 -> alias a -> exports rest -> exports (w1 ++ lit "export" ++ [32] ++ w2 ++ a ++ rest).
Inductive module : str -> Prop :=
| mo_exports s : exports s -> module s
| mo_import w i rest : trivia w -> import_stmt i -> module rest -> module (w ++ i ++ rest).
End Grammar.
