(* Free type variables, referenced type names and substitution on the TypeScript AST; dummies and
   dummy substitution on Rust types.  Definitions only (vocabulary of C03 / C07 / C14). *)
From TsRs Require Import Base.Str Base.Outcome Model.TsAst Model.Rust.

(* type parameters mentioned by a type; opaque `type = ".."` text mentions none *)
Fixpoint ftv (t : tsty) : list str :=
  match t with
  | TPrim _ | TNeverArr | TRecordNever | TLit _ | TRaw _ => []
  | TVar n | TVarF n => [n]
  | TRef _ args => flat_map ftv args
  | TArray t | TParen t | TMerged t | TUnwrap t => ftv t
  | TTuple ts | TUnion ts | TInter ts => flat_map ftv ts
  | TObj _ props => flat_map (fun p => ftv (snd p)) props
  | TMapped k v | TResult k v => ftv k ++ ftv v
  end.

(* names of declared types a type refers to *)
Fixpoint refs (t : tsty) : list str :=
  match t with
  | TPrim _ | TNeverArr | TRecordNever | TLit _ | TRaw _ | TVar _ | TVarF _ => []
  | TRef n args => n :: flat_map refs args
  | TArray t | TParen t | TMerged t | TUnwrap t => refs t
  | TTuple ts | TUnion ts | TInter ts => flat_map refs ts
  | TObj _ props => flat_map (fun p => refs (snd p)) props
  | TMapped k v | TResult k v => refs k ++ refs v
  end.

(* substitution: `sn` for parameters in name position, `sf` for parameters in flattened position *)
Section Subst.
Variable sn sf : str -> option tsty.
Fixpoint tsubst (t : tsty) : tsty :=
  match t with
  | TPrim _ | TNeverArr | TRecordNever | TLit _ | TRaw _ => t
  | TVar n => match sn n with Some u => u | None => t end
  | TVarF n => match sf n with Some u => u | None => t end
  | TRef n args => TRef n (map tsubst args)
  | TArray t => TArray (tsubst t)
  | TParen t => TParen (tsubst t)
  | TMerged t => TMerged (tsubst t)
  | TUnwrap t => TUnwrap (tsubst t)
  | TTuple ts => TTuple (map tsubst ts)
  | TUnion ts => TUnion (map tsubst ts)
  | TInter ts => TInter (map tsubst ts)
  | TObj st props => TObj st (map (fun p => (fst p, tsubst (snd p))) props)
  | TMapped k v => TMapped (tsubst k) (tsubst v)
  | TResult k v => TResult (tsubst k) (tsubst v)
  end.
End Subst.

(* the dummies (placeholder parameter types of decl()) occurring in a Rust type *)
Fixpoint rdummies (t : rty) : list str :=
  match t with
  | RLeaf _ | RParam _ => []
  | ROption u | RVec u | RArray _ u | RWrap u | RRange u => rdummies u
  | RTuple ts => flat_map rdummies ts
  | RMap k v | RResult k v => rdummies k ++ rdummies v
  | RNamed _ args => flat_map rdummies args
  | RDummy n => [n]
  end.

(* replacing dummies by types *)
Section DSubst.
Variable rho : str -> option rty.
Fixpoint dsubst (t : rty) : rty :=
  match t with
  | RLeaf _ | RParam _ => t
  | ROption u => ROption (dsubst u)
  | RVec u => RVec (dsubst u)
  | RArray n u => RArray n (dsubst u)
  | RWrap u => RWrap (dsubst u)
  | RRange u => RRange (dsubst u)
  | RTuple ts => RTuple (map dsubst ts)
  | RMap k v => RMap (dsubst k) (dsubst v)
  | RResult k v => RResult (dsubst k) (dsubst v)
  | RNamed id args => RNamed id (map dsubst args)
  | RDummy n => match rho n with Some u => u | None => t end
  end.
End DSubst.

(* a type written in a definition: parameters allowed (below `n`), dummies not *)
Fixpoint src_ty (n : nat) (t : rty) : bool :=
  match t with
  | RLeaf _ => true
  | RParam i => Nat.ltb i n
  | ROption u | RVec u | RArray _ u | RWrap u | RRange u => src_ty n u
  | RTuple ts => forallb (src_ty n) ts
  | RMap k v | RResult k v => src_ty n k && src_ty n v
  | RNamed _ args => forallb (src_ty n) args
  | RDummy _ => false
  end.

Definition src_field (n : nat) (f : field) : bool := src_ty n (f_ty f).
Definition src_shape (n : nat) (s : shape) : bool :=
  match s with SUnit => true | STuple fs | SNamed fs => forallb (src_field n) fs end.
Definition src_variant (n : nat) (v : variant) : bool :=
  src_shape n (v_shape v) && match v_as v with Some u => src_ty n u | None => true end.
Definition src_def (d : typedef) : bool :=
  let a := attrs_of d in
  let n := length (c_params a) in
  match c_as a with Some u => src_ty n u | None => true end &&
  forallb (fun p => match snd p with Some u => src_ty n u | None => true end) (c_params a) &&
  match d with
  | DStruct _ s => src_shape n s
  | DEnum _ _ _ vs => forallb (src_variant n) vs
  end.
Definition src_env (R : env) : bool := forallb (fun e => src_def (snd e)) R.

(* the type arguments supplied to a definition cover its parameters *)
Definition arity_ok (d : typedef) (args : list rty) : Prop := length args = length (c_params (attrs_of d)).
