(* serde_derive 1.0.215, src/internals/case.rs: RenameRule::apply_to_variant / apply_to_field,
   transcribed arm by arm, including the byte slicing `s[..1]` / `s[1..]`, which panics when byte
   offset 1 is out of range or not a character boundary. *)
From TsRs Require Import Base.Str Base.Outcome Model.Case.

Section WithUnicode.
Variable is_upper : char -> bool.

(* `s[..1].to_ascii_lowercase() + &s[1..]` *)
Definition slice_lower_first (s : str) : outcome str :=
  match s with
  | [] => Panic (lit "byte index 1 is out of bounds")
  | c :: r => if utf8_len c =? 1 then Ok (ascii_lower c :: r)
              else Panic (lit "byte index 1 is not a char boundary")
  end.

Fixpoint serde_snake (i : N) (s : str) : str :=
  match s with
  | [] => []
  | ch :: r =>
      (if (0 <? i) && is_upper ch then [underscore] else []) ++
      ascii_lower ch :: serde_snake (i + utf8_len ch) r
  end.

Fixpoint serde_pascal (capitalize : bool) (s : str) : str :=
  match s with
  | [] => []
  | ch :: r =>
      if ch =? underscore then serde_pascal true r
      else if capitalize then ascii_upper ch :: serde_pascal false r
      else ch :: serde_pascal false r
  end.

Definition serde_variant (r : rule) (variant : str) : outcome str :=
  match r with
  | Pascal => Ok variant
  | Lower => Ok (to_ascii_lowercase variant)
  | Upper => Ok (to_ascii_uppercase variant)
  | Camel => slice_lower_first variant
  | Snake => Ok (serde_snake 0 variant)
  | ScreamingSnake => Ok (to_ascii_uppercase (serde_snake 0 variant))
  | Kebab => Ok (replace_char underscore [hyphen] (serde_snake 0 variant))
  | ScreamingKebab =>
      Ok (replace_char underscore [hyphen] (to_ascii_uppercase (serde_snake 0 variant)))
  end.

Definition serde_field (r : rule) (field : str) : outcome str :=
  match r with
  | Lower | Snake => Ok field
  | Upper => Ok (to_ascii_uppercase field)
  | Pascal => Ok (serde_pascal true field)
  | Camel => slice_lower_first (serde_pascal true field)
  | ScreamingSnake => Ok (to_ascii_uppercase field)
  | Kebab => Ok (replace_char underscore [hyphen] field)
  | ScreamingKebab => Ok (replace_char underscore [hyphen] (to_ascii_uppercase field))
  end.

Definition serde_rename (p : position) (r : rule) (id : str) : outcome str :=
  match p with Field => serde_field r id | Variant => serde_variant r id end.

End WithUnicode.
