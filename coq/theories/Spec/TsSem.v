(* Meaning of the generated TypeScript types as sets of JSON values (the reading fixed by the
   properties: object types are exact, `bigint` is a JSON integer, `number` any JSON number), as an
   executable, fuelled decision procedure `memberb`; normalisation of the textual rewrites
   (`TMerged`, `TUnwrap`); type-directed enumeration of inhabitants (`witnesses`).
   References unfold the referenced declaration with its parameters substituted (one unit of fuel
   per step).  Definitions only. *)
From TsRs Require Import Base.Str Base.Outcome Model.TsAst Spec.TsFree.
From Coq Require Import ZArith.

Inductive json :=
| JNull
| JBool (b : bool)
| JInt (z : Z)
| JFloat (tok : str)           (* a finite non-integer number, as written *)
| JStr (s : str)
| JArr (l : list json)
| JObj (l : list (str * json)).

Definition denv := list (str * tsdecl).

Fixpoint dlookup (E : denv) (n : str) : option tsdecl :=
  match E with
  | [] => None
  | (k, d) :: r => if str_eqb k n then Some d else dlookup r n
  end.

(* arguments of a reference bound to the parameters of the declaration; missing arguments take the
   parameter's default *)
Fixpoint bind_params (ps : list (str * option tsty)) (args : list tsty) (n : str) : option tsty :=
  match ps, args with
  | [], _ => None
  | (p, _) :: ps', a :: args' => if str_eqb p n then Some a else bind_params ps' args' n
  | (p, dflt) :: ps', [] => if str_eqb p n then dflt else bind_params ps' [] n
  end.

Definition unfold_ref (E : denv) (n : str) (args : list tsty) : option tsty :=
  match dlookup E n with
  | Some d => let s := bind_params (d_params d) args in Some (tsubst s s (d_body d))
  | None => None
  end.

Definition s_eq (a : String.string) (b : str) : bool := str_eqb (lit a) b.
Arguments s_eq a%string b.

Definition prim_member (p : str) (j : json) : bool :=
  match j with
  | JNull => s_eq "null" p
  | JBool _ => s_eq "boolean" p
  | JInt _ => s_eq "number" p || s_eq "bigint" p
  | JFloat _ => s_eq "number" p
  | JStr _ => s_eq "string" p
  | _ => false
  end.

Definition is_digit_str (s : str) : bool :=
  match s with
  | [] => false
  | c :: r => if (c =? 45)%N then match r with [] => false | _ => forallb is_ascii_digit r end
              else forallb is_ascii_digit s
  end.

(* the key reading of the key type of a mapped type *)
Fixpoint key_ok (k : tsty) (s : str) : bool :=
  match k with
  | TPrim p => s_eq "string" p || ((s_eq "number" p || s_eq "bigint" p) && is_digit_str s)
               || (s_eq "boolean" p && (s_eq "true" s || s_eq "false" s))
  | TLit x => str_eqb x s
  | TUnion ks => existsb (fun k' => key_ok k' s) ks
  | TParen k' => key_ok k' s
  | _ => false
  end.

Fixpoint assoc {A} (k : str) (l : list (str * A)) : option A :=
  match l with
  | [] => None
  | (x, v) :: r => if str_eqb x k then Some v else assoc k r
  end.

(* one alternative of an object type in disjunctive normal form: its properties and its index
   signatures `{ [key in K]?: V }` *)
Definition alt := (list (phead * tsty) * list (tsty * tsty))%type.

Definition alt_merge (a b : alt) : alt := (fst a ++ fst b, snd a ++ snd b).

Definition is_never (t : tsty) : bool := match t with TPrim p => s_eq "never" p | _ => false end.

Section Sem.
Variable E : denv.

(* object types denoted by a type, as alternatives; None = not an object type (e.g. `null`) *)
Fixpoint dnf (fuel : nat) (t : tsty) : option (list alt) :=
  match fuel with
  | O => None
  | S f =>
      match t with
      | TObj _ ps => Some [(ps, [])]
      | TRecordNever => Some [([], [(TPrim (lit "string"%string), TPrim (lit "never"%string))])]   (* `{ [key: string]: never }` *)
      | TMapped k v => Some [([], [(k, v)])]
      | TResult a b => Some [([(Build_phead [] (lit "Ok"%string) (lit "Ok"%string) false, a)], []);
                             ([(Build_phead [] (lit "Err"%string) (lit "Err"%string) false, b)], [])]
      | TUnion ts =>
          fold_right (fun u acc => match dnf f u, acc with
                                   | Some a, Some b => Some (a ++ b)
                                   | _, _ => None
                                   end) (Some []) ts
      | TInter ts =>
          fold_right (fun u acc => match dnf f u, acc with
                                   | Some a, Some b => Some (flat_map (fun x => map (alt_merge x) b) a)
                                   | _, _ => None
                                   end) (Some [([], [])]) ts
      | TParen u | TMerged u | TUnwrap u => dnf f u
      | TRef n args => match unfold_ref E n args with Some b => dnf f b | None => None end
      | _ => None
      end
  end.

Section Alt.
Variable mem : tsty -> json -> bool.
(* exact object membership: required properties present, every present key allowed; an index signature whose value type is
   `never` (Record<string, never> in an intersection) forbids every key it matches, declared or not; other index signatures
   are not applied to declared properties (the reading ts-rs intends for `{ "tag": .. } & { [key in K]?: V }`) *)
Definition alt_member (a : alt) (l : list (str * json)) : bool :=
  forallb (fun p => match assoc (p_key (fst p)) l with
                    | Some v => mem (snd p) v
                    | None => p_optional (fst p)
                    end) (fst a) &&
  forallb (fun e => match assoc (fst e) (map (fun p => (p_key (fst p), snd p)) (fst a)) with
                    | Some _ => negb (existsb (fun m => is_never (snd m) && key_ok (fst m) (fst e)) (snd a))
                    | None => match snd a with
                              | [] => false
                              | ms => forallb (fun m => key_ok (fst m) (fst e) && mem (snd m) (snd e)) ms
                              end
                    end) l.

Fixpoint forall2b {A B} (f : A -> B -> bool) (l : list A) (m : list B) : bool :=
  match l, m with
  | [], [] => true
  | x :: l', y :: m' => f x y && forall2b f l' m'
  | _, _ => false
  end.
End Alt.

Fixpoint memberb (fuel : nat) (t : tsty) (j : json) {struct fuel} : bool :=
  match fuel with
  | O => false
  | S f =>
      match t with
      | TPrim p => prim_member p j
      | TLit s => match j with JStr x => str_eqb x s | _ => false end
      | TVar _ | TVarF _ => false
      | TRaw _ => true                       (* `type = ".."`: the user asserts the representation *)
      | TRef n args => match unfold_ref E n args with Some b => memberb f b j | None => false end
      | TArray u => match j with JArr l => forallb (memberb f u) l | _ => false end
      | TNeverArr => match j with JArr [] => true | _ => false end
      | TRecordNever => match j with JObj [] => true | _ => false end
      | TTuple ts => match j with JArr l => forall2b (memberb f) ts l | _ => false end
      | TObj _ ps => match j with JObj l => alt_member (memberb f) (ps, []) l | _ => false end
      | TMapped k v => match j with JObj l => alt_member (memberb f) ([], [(k, v)]) l | _ => false end
      | TResult a b =>
          match j with
          | JObj [(k, x)] => (s_eq "Ok" k && memberb f a x) || (s_eq "Err" k && memberb f b x)
          | _ => false
          end
      | TUnion ts => existsb (fun u => memberb f u j) ts
      | TInter ts =>
          match j, dnf f (TInter ts) with
          | JObj l, Some alts => existsb (fun a => alt_member (memberb f) a l) alts
          | _, _ => false
          end
      | TParen u | TMerged u | TUnwrap u => memberb f u j
      end
  end.

(* --- witnesses: a finite, type-directed sample of inhabitants ------------------------------- *)
Definition first_or {A} (d : A) (l : list A) : A := match l with x :: _ => x | [] => d end.

Definition prim_witnesses (p : str) : list json :=
  if s_eq "number" p then [JInt 0; JInt 1]
  else if s_eq "bigint" p then [JInt 0; JInt 1]
  else if s_eq "boolean" p then [JBool true; JBool false]
  else if s_eq "string" p then [JStr (lit "a"%string)]
  else if s_eq "null" p then [JNull]
  else [].

Fixpoint key_witness (k : tsty) : option str :=
  match k with
  | TPrim p => if s_eq "string" p then Some (lit "a"%string)
               else if s_eq "number" p || s_eq "bigint" p then Some (lit "1"%string)
               else if s_eq "boolean" p then Some (lit "true"%string) else None
  | TLit x => Some x
  | TUnion (k' :: _) => key_witness k'
  | TParen k' => key_witness k'
  | _ => None
  end.

(* objects from one alternative: all properties present (each with its first witness), then one
   variation per property (its other witnesses; absent if optional), then one index-signature key *)
Definition alt_witnesses (wit : tsty -> list json) (a : alt) : list json :=
  let ps := fst a in
  let firsts := map (fun p => (p, wit (snd p))) ps in
  if existsb (fun pw => match snd pw with [] => negb (p_optional (fst (fst pw))) | _ => false end) firsts then []
  else
    let base := flat_map (fun pw => match snd pw with w :: _ => [(p_key (fst (fst pw)), w)] | [] => [] end) firsts in
    let vary :=
      flat_map (fun pw =>
        let k := p_key (fst (fst pw)) in
        let others := match snd pw with _ :: r => r | [] => [] end in
        map (fun w => JObj (map (fun e => if str_eqb (fst e) k then (k, w) else e) base)) others ++
        (if p_optional (fst (fst pw)) then [JObj (filter (fun e => negb (str_eqb (fst e) k)) base)] else [])) firsts in
    let idx := match snd a with
               | (k, v) :: _ => match key_witness k, wit v with
                                | Some ks, w :: _ => if existsb (fun e => str_eqb (fst e) ks) base then [] else [JObj (base ++ [(ks, w)])]
                                | _, _ => []
                                end
               | [] => []
               end in
    JObj base :: vary ++ idx.

Fixpoint witnesses (fuel : nat) (t : tsty) : list json :=
  match fuel with
  | O => []
  | S f =>
      match t with
      | TPrim p => prim_witnesses p
      | TLit s => [JStr s]
      | TVar _ | TVarF _ | TRaw _ => []
      | TRef n args => match unfold_ref E n args with Some b => witnesses f b | None => [] end
      | TArray u => JArr [] :: match witnesses f u with
                               | [] => []
                               | w :: r => JArr [w] :: match r with w2 :: _ => [JArr [w; w2]] | [] => [JArr [w; w]] end
                               end
      | TNeverArr => [JArr []]
      | TRecordNever => [JObj []]
      | TTuple ts =>
          let ws := map (witnesses f) ts in
          if existsb (fun l => match l with [] => true | _ => false end) ws then []
          else
            let base := map (first_or JNull) ws in
            JArr base ::
            flat_map (fun i => match nth i ws [] with
                               | _ :: w2 :: _ => [JArr (firstn i base ++ [w2] ++ skipn (S i) base)]
                               | _ => []
                               end) (seq 0 (length ts))
      | TObj _ ps => alt_witnesses (witnesses f) (ps, [])
      | TMapped k v => alt_witnesses (witnesses f) ([], [(k, v)])
      | TResult a b =>
          map (fun w => JObj [(lit "Ok"%string, w)]) (firstn 2 (witnesses f a)) ++
          map (fun w => JObj [(lit "Err"%string, w)]) (firstn 2 (witnesses f b))
      | TUnion ts => flat_map (fun u => firstn 6 (witnesses f u)) ts
      | TInter ts => match dnf f (TInter ts) with
                     | Some alts => flat_map (fun a => firstn 6 (alt_witnesses (witnesses f) a)) alts
                     | None => []
                     end
      | TParen u | TMerged u | TUnwrap u => witnesses f u
      end
  end.
End Sem.

(* --- the textual rewrites, structurally ------------------------------------------------------- *)
(* merging adjacent `{ .. }` operands of an intersection: what `.replace(" } & { ", " ")` is meant to do *)
Fixpoint merge_from (cur : tsty) (rest : list tsty) : list tsty :=
  match rest with
  | [] => [cur]
  | x :: r =>
      match cur, x with
      | TObj OStruct ps, TObj OStruct qs => merge_from (TObj OStruct (ps ++ qs)) r
      | _, _ => cur :: merge_from x r
      end
  end.
Definition merge_adjacent (l : list tsty) : list tsty := match l with [] => [] | x :: r => merge_from x r end.

Definition inter_of (l : list tsty) : tsty := match l with [x] => x | _ => TInter l end.
(* an operand that is itself an intersection contributes its operands (intersection is associative) *)
Definition flat_inter (l : list tsty) : list tsty := flat_map (fun x => match x with TInter l' => l' | _ => [x] end) l.

Fixpoint norm (t : tsty) : tsty :=
  match t with
  | TPrim _ | TNeverArr | TRecordNever | TLit _ | TRaw _ | TVar _ | TVarF _ => t
  | TRef n args => TRef n (map norm args)
  | TArray u => TArray (norm u)
  | TParen u => TParen (norm u)
  | TTuple ts => TTuple (map norm ts)
  | TUnion ts => TUnion (map norm ts)
  | TInter ts => TInter (map norm ts)
  | TObj st ps => TObj st (map (fun p => (fst p, norm (snd p))) ps)
  | TMapped k v => TMapped (norm k) (norm v)
  | TResult k v => TResult (norm k) (norm v)
  | TMerged u => match norm u with
                 | TInter l => inter_of (merge_adjacent (flat_inter l))
                 | u' => u'
                 end
  | TUnwrap u => match norm u with
                 | TParen v => v
                 | u' => u'
                 end
  end.

(* the text the implementation printed is the text of the structurally rewritten type *)
Definition norm_ok (t : tsty) : bool := str_eqb (print (norm t)) (print t).

(* reading used only to CLASSIFY a failing case: optional properties also accept `null`
   (`#[ts(optional)]` without serde's skip_serializing_if — a known class of C01) *)
Fixpoint lax (t : tsty) : tsty :=
  match t with
  | TPrim _ | TNeverArr | TRecordNever | TLit _ | TRaw _ | TVar _ | TVarF _ => t
  | TRef n args => TRef n (map lax args)
  | TArray u => TArray (lax u)
  | TParen u => TParen (lax u)
  | TMerged u => TMerged (lax u)
  | TUnwrap u => TUnwrap (lax u)
  | TTuple ts => TTuple (map lax ts)
  | TUnion ts => TUnion (map lax ts)
  | TInter ts => TInter (map lax ts)
  | TObj st ps => TObj st (map (fun p => (fst p, if p_optional (fst p) then TUnion [lax (snd p); TPrim (lit "null")] else lax (snd p))) ps)
  | TMapped k v => TMapped (lax k) (lax v)
  | TResult k v => TResult (lax k) (lax v)
  end.
Definition lax_env (E : denv) : denv :=
  map (fun e => (fst e, {| d_docs := d_docs (snd e); d_name := d_name (snd e); d_params := d_params (snd e); d_body := lax (d_body (snd e)) |})) E.
