(* serde's data model serialised by serde_json (serde 1.0.215 / serde_derive 1.0.215 / serde_json
   1.0.133), for the fragment of Model/Rust.v: what `serde_json::to_string(&v)` prints for a value
   `v : t`, as a JSON term; None where serialisation fails or the value is not of the type.
   Written from serde's documentation and the wire-format facts pinned by probe (DESIGN 6.1); tied to
   the real serde_json on every run by the corpus correspondence (C01).  Definitions only. *)
From TsRs Require Import Base.Str Base.Outcome Model.Case Model.Rust Spec.TsSem.
From Coq Require Import ZArith.
Open Scope string_scope.
Open Scope list_scope.

Inductive value :=
| VInt (z : Z)
| VFloat (tok : str)                     (* finite; as serde_json prints it *)
| VBool (b : bool)
| VStr (s : str)                         (* String and char *)
| VUnit
| VNone
| VSome (v : value)
| VSeq (l : list value)                  (* Vec, arrays, tuples *)
| VMap (l : list (value * value))
| VStruct (fs : list value)              (* one value per field, skipped fields included *)
| VVariant (idx : nat) (fs : list value). (* enum variant by position; Result: 0 = Ok, 1 = Err *)

(* decimal text of an integer (map keys) *)
Fixpoint pos_digits (fuel : nat) (n : N) (acc : str) : str :=
  match fuel with
  | O => acc
  | S f => let d := (48 + N.modulo n 10)%N in
           if (n <? 10)%N then d :: acc else pos_digits f (N.div n 10) (d :: acc)
  end.
Definition z_to_str (z : Z) : str :=
  match z with
  | Z0 => [48%N]
  | Zpos p => pos_digits (S (Pos.size_nat p)) (Npos p) []
  | Zneg p => 45%N :: pos_digits (S (Pos.size_nat p)) (Npos p) []
  end.

(* serde_json's map-key serializer: strings as they are, integers and booleans stringified *)
Definition key_of_json (j : json) : option str :=
  match j with
  | JStr s => Some s
  | JInt z => Some (z_to_str z)
  | JBool b => Some (if b then lit "true" else lit "false")
  | _ => None
  end.

Section OptList.
Context {A B : Type} (f : A -> option B).
Fixpoint opt_map (l : list A) : option (list B) :=
  match l with
  | [] => Some []
  | x :: r => match f x, opt_map r with Some y, Some ys => Some (y :: ys) | _, _ => None end
  end.
End OptList.

Section Opt2.
Context {A B C : Type} (f : A -> B -> option C).
Fixpoint opt_map2 (l : list A) (m : list B) : option (list C) :=
  match l, m with
  | [], [] => Some []
  | x :: l', y :: m' => match f x y, opt_map2 l' m' with Some z, Some zs => Some (z :: zs) | _, _ => None end
  | _, _ => None
  end.
End Opt2.

Definition leaf_ser (l : leaf) (v : value) : option json :=
  match l, v with
  | LInt _ lo hi, VInt z => if (lo <=? z)%Z && (z <=? hi)%Z then Some (JInt z) else None
  | LFloat, VFloat tok => Some (JFloat tok)
  | LBool, VBool b => Some (JBool b)
  | LString, VStr s => Some (JStr s)
  | LChar, VStr [c] => Some (JStr [c])
  | LUnit, VUnit => Some JNull
  | _, _ => None
  end.

Section Ser.
Variable is_upper : char -> bool.
Variable R : env.

Definition field_key (rename_all : option rule) (f : field) : str :=
  match f_rename f, rename_all with
  | Some n, _ => n
  | None, Some r => apply_to_field r (f_ident f)
  | None, None => f_ident f
  end.
Definition variant_name (rename_all : option rule) (v : variant) : str :=
  match v_rename v, rename_all with
  | Some n, _ => n
  | None, Some r => apply_to_variant is_upper r (v_ident v)
  | None, None => v_ident v
  end.

Definition obj_entries (j : json) : option (list (str * json)) :=
  match j with JObj l => Some l | _ => None end.

Section Lib.
(* what a derived type serialises to *)
Variable sd : typedef -> list rty -> value -> option json.

Fixpoint ser_ty (t : rty) (v : value) {struct t} : option json :=
  match t with
  | RLeaf l => leaf_ser l v
  | ROption u => match v with VNone => Some JNull | VSome x => ser_ty u x | _ => None end
  | RVec u => match v with VSeq l => option_map JArr (opt_map (ser_ty u) l) | _ => None end
  | RArray n u => match v with
                  | VSeq l => if Nat.eqb (length l) n then option_map JArr (opt_map (ser_ty u) l) else None
                  | _ => None
                  end
  | RTuple ts =>
      match v with
      | VSeq l => option_map JArr (opt_map2 ser_ty ts l)
      | _ => None
      end
  | RMap k u =>
      match v with
      | VMap l => option_map JObj (opt_map (fun e => match ser_ty k (fst e), ser_ty u (snd e) with
                                                     | Some kj, Some y => option_map (fun ks => (ks, y)) (key_of_json kj)
                                                     | _, _ => None
                                                     end) l)
      | _ => None
      end
  | RWrap u => ser_ty u v
  | RResult a b =>
      match v with
      | VVariant 0 [x] => option_map (fun y => JObj [(lit "Ok", y)]) (ser_ty a x)
      | VVariant 1 [x] => option_map (fun y => JObj [(lit "Err", y)]) (ser_ty b x)
      | _ => None
      end
  | RRange u =>
      match v with
      | VStruct [a; b] => match ser_ty u a, ser_ty u b with
                          | Some x, Some y => Some (JObj [(lit "start", x); (lit "end", y)])
                          | _, _ => None
                          end
      | _ => None
      end
  | RNamed id args => match lookup R id with Some d => sd d args v | None => None end
  | RParam _ | RDummy _ => None
  end.
End Lib.

(* ---- derived types --------------------------------------------------------------------------- *)
Section Def.
Variable st : rty -> value -> option json.    (* serialisation of field types *)

(* the JSON entries a named-field list contributes *)
Fixpoint named_entries (args : list rty) (rename_all : option rule) (fs : list field) (vs : list value)
  : option (list (str * json)) :=
  match fs, vs with
  | [], [] => Some []
  | f :: fs', v :: vs' =>
      match named_entries args rename_all fs' vs' with
      | None => None
      | Some rest =>
          if f_skip f then Some rest
          else if f_skip_none f && match v with VNone => true | _ => false end then Some rest
          else match st (rsubst args (f_serde_ty f)) v with
               | None => None
               | Some j =>
                   if f_flatten f then option_map (fun l => l ++ rest) (obj_entries j)
                   else Some ((field_key rename_all f, j) :: rest)
               end
      end
  | _, _ => None
  end.

Definition tuple_items (args : list rty) (fs : list field) (vs : list value) : option (list json) :=
  option_map (@concat json)
    (opt_map2 (fun f v => if f_skip f then Some [] else option_map (fun j => [j]) (st (rsubst args (f_serde_ty f)) v)) fs vs).

Definition live_count (fs : list field) : nat := length (filter (fun f => negb (f_skip f)) fs).

(* the content of a struct / a variant, by shape *)
Definition shape_ser (args : list rty) (rename_all : option rule) (s : shape) (vs : list value) : option json :=
  match s with
  | SUnit => match vs with [] => Some JNull | _ => None end
  | STuple [f] => match vs with [v] => st (rsubst args (f_serde_ty f)) v | _ => None end   (* newtype: skip is ignored *)
  | STuple fs => option_map JArr (tuple_items args fs vs)
  | SNamed fs => option_map JObj (named_entries args rename_all fs vs)
  end.

Definition is_named_shape (s : shape) : bool := match s with SNamed _ => true | _ => false end.

Definition variant_ser (args : list rty) (a : cattrs) (tg : tagging) (raf : option rule) (v : variant) (vs : list value)
  : option json :=
  if v_skip v then None else
  let name := variant_name (c_rename_all a) v in
  let ra := match v_rename_all v with Some r => Some r | None => if is_named_shape (v_shape v) then raf else None end in
  let lone_skipped := match v_shape v with STuple [f] => f_skip f | _ => false end in
  let content := if lone_skipped then Some JNull else shape_ser args ra (v_shape v) vs in
  let tgv := if v_untagged v then Untagged else tg in
  match tgv with
  | Untagged => match v_shape v with SUnit => Some JNull | _ => content end
  | External =>
      match v_shape v with
      | SUnit => Some (JStr name)
      | _ => if lone_skipped then Some (JStr name) else option_map (fun c => JObj [(name, c)]) content
      end
  | Adjacent t c =>
      match v_shape v with
      | SUnit => Some (JObj [(t, JStr name)])
      | _ => if lone_skipped then Some (JObj [(t, JStr name)])
             else option_map (fun x => JObj [(t, JStr name); (c, x)]) content
      end
  | Internal t =>
      match v_shape v with
      | SUnit => Some (JObj [(t, JStr name)])
      | SNamed _ | STuple [_] =>
          if lone_skipped then Some (JObj [(t, JStr name)])
          else match content with
               | Some (JObj l) => Some (JObj ((t, JStr name) :: l))
               | _ => None                      (* serde: cannot serialize a non-map newtype under `tag` *)
               end
      | STuple _ => None                        (* rejected by serde_derive at compile time *)
      end
  end.

Definition def_ser (d : typedef) (args : list rty) (v : value) : option json :=
  match d, v with
  | DStruct a s, VStruct vs =>
      match c_tag a, s with
      | Some t, SNamed fs =>
          option_map (fun l => JObj ((t, JStr (ts_ident d)) :: l)) (named_entries args (c_rename_all a) fs vs)
      | _, _ => shape_ser args (c_rename_all a) s vs
      end
  | DEnum a tg raf vars, VVariant i vs =>
      match nth_error vars i with
      | Some vr => variant_ser args a tg raf vr vs
      | None => None
      end
  | _, _ => None
  end.
End Def.

Fixpoint sdef (fuel : nat) : typedef -> list rty -> value -> option json :=
  match fuel with
  | O => fun _ _ _ => None
  | S f => let g := sdef f in def_ser (ser_ty g)
  end.

Definition ser (fuel : nat) : rty -> value -> option json := ser_ty (sdef fuel).

End Ser.

(* printing JSON the way serde_json does (compact), for the correspondence *)
Definition hexd (n : N) : char := if (n <? 10)%N then (48 + n)%N else (87 + n)%N.
Definition json_escape (s : str) : str :=
  flat_map (fun c => if (c =? 34)%N then [92; 34]%N else if (c =? 92)%N then [92; 92]%N
                     else if (c =? 10)%N then [92; 110]%N else if (c =? 13)%N then [92; 114]%N
                     else if (c =? 9)%N then [92; 116]%N else if (c =? 8)%N then [92; 98]%N
                     else if (c =? 12)%N then [92; 102]%N
                     else if (c <? 32)%N then [92; 117; 48; 48; hexd (N.div c 16); hexd (N.modulo c 16)]%N
                     else [c]) s.
Fixpoint json_text (j : json) : str :=
  match j with
  | JNull => lit "null"
  | JBool b => if b then lit "true" else lit "false"
  | JInt z => z_to_str z
  | JFloat t => t
  | JStr s => [34%N] ++ json_escape s ++ [34%N]
  | JArr l => lit "[" ++ join (lit ",") (map json_text l) ++ lit "]"
  | JObj l => lit "{" ++ join (lit ",") (map (fun e => [34%N] ++ json_escape (fst e) ++ lit """:" ++ json_text (snd e)) l) ++ lit "}"
  end.
