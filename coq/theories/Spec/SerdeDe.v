(* serde_json's Deserialize for the fragment of Model/Rust.v (derive(Deserialize) and the std impls), as far as C02
   needs it: which JSON values are ACCEPTED, and a value they are read as.  Three outcomes: a value, a leaf that the
   Rust leaf type cannot represent (a number out of range or not integral for an integer type, a string of more
   or fewer than one character for `char`: the property sets these aside), rejection.  Open recursion like Spec/Serde.v.
   Definitions only; tied to the real serde_json::from_str on every run (tools/props/c02.py). *)
From TsRs Require Import Base.Str Model.Case Model.Rust Spec.TsSem Spec.Serde.
From Coq Require Import List NArith ZArith Bool.
Import ListNotations.

Inductive dres := DOk (v : value) | DMisfit | DReject.

Definition dbind (r : dres) (f : value -> dres) : dres :=
  match r with DOk v => f v | DMisfit => DMisfit | DReject => DReject end.

(* all elements; the first rejection wins over a misfit (any answer but DReject means `not rejected outright`) *)
Fixpoint dall (rs : list dres) : option (list value) + bool :=   (* inl (Some vs) | inr false = misfit | inr true = reject *)
  match rs with
  | [] => inl (Some [])
  | r :: rest =>
      match r, dall rest with
      | DReject, _ => inr true
      | _, inr true => inr true
      | DMisfit, _ => inr false
      | _, inr false => inr false
      | DOk v, inl (Some vs) => inl (Some (v :: vs))
      | DOk _, inl None => inl None
      end
  end.
Definition dseq (rs : list dres) (k : list value -> value) : dres :=
  match dall rs with inl (Some vs) => DOk (k vs) | inl None => DReject | inr false => DMisfit | inr true => DReject end.

(* decimal text of an integer (no sign handling beyond a leading `-`) *)
Fixpoint digits_val (acc : Z) (s : str) : Z :=
  match s with [] => acc | c :: r => digits_val (acc * 10 + Z.of_N (c - 48)) r end.
Definition parse_int (s : str) : option Z :=
  match s with
  | 45 :: r => if is_digit_str s then Some (- digits_val 0 r)%Z else None
  | _ => if is_digit_str s then Some (digits_val 0 s) else None
  end%N.

Definition leaf_de (l : leaf) (j : json) : dres :=
  match l, j with
  | LInt _ lo hi, JInt z => if (lo <=? z)%Z && (z <=? hi)%Z then DOk (VInt z) else DMisfit
  | LInt _ _ _, JFloat _ => DMisfit
  | LFloat, JFloat tok => DOk (VFloat tok)
  | LFloat, JInt z => DOk (VFloat (z_to_str z ++ lit ".0"))
  | LBool, JBool b => DOk (VBool b)
  | LString, JStr s => DOk (VStr s)
  | LChar, JStr [c] => DOk (VStr [c])
  | LChar, JStr _ => DMisfit
  | LUnit, JNull => DOk VUnit
  | _, _ => DReject
  end.

(* a map key, read through the key type *)
Definition key_de (k : rty) (s : str) : dres :=
  match k with
  | RLeaf LString => DOk (VStr s)
  | RLeaf LChar => match s with [c] => DOk (VStr [c]) | _ => DMisfit end
  | RLeaf (LInt _ lo hi) => match parse_int s with
                            | Some z => if (lo <=? z)%Z && (z <=? hi)%Z then DOk (VInt z) else DMisfit
                            | None => DReject
                            end
  | _ => DReject
  end.

Section Map2.
Variable f : rty -> json -> dres.
Fixpoint dmap2 (ts : list rty) (l : list json) : option (list dres) :=
  match ts, l with
  | [], [] => Some []
  | t :: ts', x :: l' => match dmap2 ts' l' with Some r => Some (f t x :: r) | None => None end
  | _, _ => None
  end.
End Map2.

Section De.
Variable is_upper : char -> bool.
Variable R : env.

Section Lib.
Variable dd : typedef -> list rty -> json -> dres.

Fixpoint de_ty (t : rty) (j : json) {struct t} : dres :=
  match t with
  | RLeaf l => leaf_de l j
  | ROption u => match j with JNull => DOk VNone | _ => dbind (de_ty u j) (fun v => DOk (VSome v)) end
  | RVec u => match j with JArr l => dseq (map (de_ty u) l) VSeq | _ => DReject end
  | RArray n u => match j with
                  | JArr l => if Nat.eqb (length l) n then dseq (map (de_ty u) l) VSeq else DReject
                  | _ => DReject
                  end
  | RTuple ts =>
      match j with
      | JArr l => match dmap2 de_ty ts l with Some rs => dseq rs VSeq | None => DReject end
      | _ => DReject
      end
  | RMap k u =>
      match j with
      | JObj es => dseq (map (fun e => dbind (key_de k (fst e)) (fun kv => dbind (de_ty u (snd e)) (fun vv => DOk (VSeq [kv; vv])))) es)
                        (fun vs => VMap (map (fun p => match p with VSeq [a; b] => (a, b) | _ => (VUnit, VUnit) end) vs))
      | _ => DReject
      end
  | RWrap u => de_ty u j
  | RResult a b =>
      match j with
      | JObj [(k, x)] =>
          if s_eq "Ok" k then dbind (de_ty a x) (fun v => DOk (VVariant 0 [v]))
          else if s_eq "Err" k then dbind (de_ty b x) (fun v => DOk (VVariant 1 [v]))
          else DReject
      | _ => DReject
      end
  | RRange u =>
      match j with
      | JObj es =>
          match assoc (lit "start") es, assoc (lit "end") es with
          | Some x, Some y => if Nat.eqb (length es) 2 then dseq [de_ty u x; de_ty u y] VStruct else DReject
          | _, _ => DReject
          end
      | _ => DReject
      end
  | RNamed id args => match lookup R id with Some d => dd d args j | None => DReject end
  | RParam _ | RDummy _ => DReject
  end.
End Lib.

(* ---- derived types ------------------------------------------------------------------------------- *)
Section Def.
Variable dt : rty -> json -> dres.          (* deserialisation of field types *)

(* a missing field is read from a deserializer that only answers `deserialize_option`; the transparent wrappers (Box, Rc, Arc,
   Cow, Cell, RefCell, Mutex, RwLock) hand it on to their content *)
Fixpoint is_option_ty (t : rty) : bool := match t with ROption _ => true | RWrap u => is_option_ty u | _ => false end.

(* the named fields of a struct / struct variant read from the entries of an object: skipped fields take a placeholder
   (Default::default(); the serialiser never looks at it), a missing field is None for Option types and an error
   otherwise, unknown keys are ignored *)
Definition named_de (args : list rty) (rename_all : option rule) (fs : list field) (es : list (str * json)) : dres :=
  dseq (map (fun f =>
               if f_skip f then DOk VUnit
               else if f_flatten f then dt (rsubst args (f_serde_ty f)) (JObj es)   (* a flattened struct reads its fields from the same entries (unknown keys are ignored) *)
               else match assoc (Serde.field_key rename_all f) es with
                    | Some x => dt (rsubst args (f_serde_ty f)) x
                    | None => if is_option_ty (rsubst args (f_serde_ty f)) then DOk VNone else DReject
                    end) fs) VStruct.

(* the items of a tuple struct / tuple variant: one JSON element per field that is not skipped *)
Fixpoint tuple_de (args : list rty) (fs : list field) (l : list json) : option (list dres) :=
  match fs with
  | [] => match l with [] => Some [] | _ => None end
  | f :: fs' =>
      if f_skip f then option_map (cons (DOk VUnit)) (tuple_de args fs' l)
      else match l with
           | x :: l' => option_map (cons (dt (rsubst args (f_serde_ty f)) x)) (tuple_de args fs' l')
           | [] => if f_skip_none f then option_map (cons (DOk VNone)) (tuple_de args fs' [])   (* `#[serde(default)]`: a missing element *)
                   else None
           end
  end.

(* the content of a struct / a variant, by shape; the result is the list of field values *)
Definition shape_de (seq : bool) (args : list rty) (rename_all : option rule) (s : shape) (j : json) : dres :=
  match s with
  | SUnit => match j with JNull => DOk (VStruct []) | _ => DReject end
  | STuple [f] => dbind (dt (rsubst args (f_serde_ty f)) j) (fun v => DOk (VStruct [v]))
  | STuple fs => match j with
                 | JArr l => match tuple_de args fs l with Some rs => dseq rs VStruct | None => DReject end
                 | _ => DReject
                 end
  | SNamed fs => match j with
                 | JObj es => named_de args rename_all fs es
                 | JArr l =>    (* derive(Deserialize) also reads a sequence, except for a struct variant of an untagged enum *)
                     if seq then match tuple_de args fs l with Some rs => dseq rs VStruct | None => DReject end else DReject
                 | _ => DReject
                 end
  end.

Definition fields_of (v : value) : list value := match v with VStruct l => l | _ => [] end.

(* the non-skipped variant of that name, with its position *)
Fixpoint find_variant (a : cattrs) (name : str) (i : nat) (vs : list variant) : option (nat * variant) :=
  match vs with
  | [] => None
  | v :: r => if negb (v_skip v) && str_eqb (Serde.variant_name is_upper (c_rename_all a) v) name then Some (i, v)
              else find_variant a name (S i) r
  end.

Definition variant_ra (raf : option rule) (v : variant) : option rule :=
  match v_rename_all v with Some r => Some r | None => if is_named_shape (v_shape v) then raf else None end.

Definition remove_key (k : str) (es : list (str * json)) : list (str * json) := filter (fun e => negb (str_eqb (fst e) k)) es.

(* untagged: the first variant that is not rejected outright *)
Fixpoint untagged_de (args : list rty) (raf : option rule) (i : nat) (vs : list variant) (j : json) : dres :=
  match vs with
  | [] => DReject
  | v :: r =>
      if v_skip v then untagged_de args raf (S i) r j
      else match shape_de false args (variant_ra raf v) (v_shape v) j with
           | DOk x => DOk (VVariant i (fields_of x))
           | DMisfit => match untagged_de args raf (S i) r j with DOk y => DOk y | _ => DMisfit end
           | DReject => untagged_de args raf (S i) r j
           end
  end.

Definition def_de (d : typedef) (args : list rty) (j : json) : dres :=
  match d with
  | DStruct a s => shape_de true args (c_rename_all a) s j        (* a struct-level tag is not required when reading *)
  | DEnum a tg raf vars =>
      match tg with
      | External =>
          match j with
          | JStr name =>
              match find_variant a name 0 vars with
              | Some (i, v) => match v_shape v with SUnit => DOk (VVariant i []) | _ => DReject end
              | None => DReject
              end
          | JObj [(name, x)] =>
              match find_variant a name 0 vars with
              | Some (i, v) => dbind (shape_de true args (variant_ra raf v) (v_shape v) x) (fun c => DOk (VVariant i (fields_of c)))
              | None => DReject
              end
          | _ => DReject
          end
      | Internal t =>
          match j with
          | JObj es =>
              match assoc t es with
              | Some (JStr name) =>
                  match find_variant a name 0 vars with
                  | Some (i, v) =>
                      match v_shape v with
                      | SUnit => DOk (VVariant i [])
                      | STuple [_] | SNamed _ =>
                          dbind (shape_de true args (variant_ra raf v) (v_shape v) (JObj (remove_key t es))) (fun c => DOk (VVariant i (fields_of c)))
                      | STuple _ => DReject
                      end
                  | None => DReject
                  end
              | _ => DReject
              end
          | _ => DReject
          end
      | Adjacent t c =>
          match j with
          | JObj es =>
              match assoc t es with
              | Some (JStr name) =>
                  match find_variant a name 0 vars with
                  | Some (i, v) =>
                      match v_shape v, assoc c es with
                      | SUnit, _ => DOk (VVariant i [])
                      | _, Some x =>    (* the content is read the way an untagged variant is: no sequence for a struct variant *)
                          dbind (shape_de false args (variant_ra raf v) (v_shape v) x) (fun cv => DOk (VVariant i (fields_of cv)))
                      | _, None =>      (* missing content: read as unit (accepted by Option and unit payloads) *)
                          dbind (shape_de false args (variant_ra raf v) (v_shape v) JNull) (fun cv => DOk (VVariant i (fields_of cv)))
                      end
                  | None => DReject
                  end
              | _ => DReject
              end
          | _ => DReject
          end
      | Untagged => untagged_de args raf 0 vars j
      end
  end.
End Def.

Fixpoint ddef (fuel : nat) : typedef -> list rty -> json -> dres :=
  match fuel with
  | O => fun _ _ _ => DReject
  | S f => let g := ddef f in def_de (de_ty g)
  end.

Definition de (fuel : nat) : rty -> json -> dres := de_ty (ddef fuel).
End De.
