(* Executable form of property C08 for one case, used by the correspondence run (evaluated by Coq
   on the model's output, which the digest comparison shows to be the implementation's output) and
   on the implementation's real output for every suspect case. *)
From TsRs Require Import Base.Str Base.Outcome Model.Path.

Definition names_of (cs : list comp) : option (list str) :=
  match cs with
  | Root :: r =>
      fold_right (fun c acc => match c, acc with Normal n, Some l => Some (n :: l) | _, _ => None end) (Some []) r
  | _ => None
  end.

Fixpoint list_str_eqb (a b : list str) : bool :=
  match a, b with
  | [], [] => true
  | x :: a', y :: b' => str_eqb x y && list_str_eqb a' b'
  | _, _ => false
  end.

Fixpoint is_prefix_of (a b : list str) : bool :=
  match a, b with
  | [], _ => true
  | x :: a', y :: b' => str_eqb x y && is_prefix_of a' b'
  | _, [] => false
  end.

(* verdict codes: 0 = outside the property's hypotheses (not a file pair), 1 = holds,
   2 = fails and lies in the known class KF_C08 (stem ends in `.ts` / `.js`), 3 = fails,
   4 = in the known class but holds *)
Definition kf_stem (stem : str) : bool := ends_with s_ts stem || ends_with s_js stem.

Definition c08_verdict (esm : bool) (cwd : list str) (from to : str) (observed : outcome str) : N :=
  let fcs := components from in
  match parent_comps fcs, file_name fcs, absolute cwd to with
  | Some par, Some fname, Ok tcs =>
      match absolute_comps cwd par, names_of tcs with
      | Ok fd, Some tnames =>
          match names_of fd, rev tnames with
          | Some fdir, tname :: _ =>
              match strip_suffix s_ts tname with
              | Some stem =>
                  if is_prefix_of tnames fdir || existsb (existsb (N.eqb backslash)) (fdir ++ tnames) then 0 else
                  let good :=
                    match observed with
                    | Ok s =>
                        is_relative_spec s && negb (existsb (N.eqb backslash) s)
                        && (if esm then ends_with s_js s else negb (ends_with s_ts s))
                        && match resolve esm fdir s with Some r => list_str_eqb r tnames | None => false end
                    | _ => false
                    end in
                  if kf_stem stem then (if good then 4 else 2) else (if good then 1 else 3)
              | None => 0
              end
          | _, _ => 0
          end
      | _, _ => 0
      end
  | _, _, _ => 0
  end.

(* the same-file test against its specification: the two paths denote the same file *)
Definition same_file_verdict (esm : bool) (cwd : list str) (from to : str) : N :=
  match import_path esm cwd from to, absolute cwd from, absolute cwd to, file_name (components from) with
  | Ok s, Ok f, Ok t, Some fname =>
      match names_of f, names_of t, rev (match names_of t with Some l => l | None => [] end) with
      | Some fn, Some tn, tname :: _ =>
          match strip_suffix s_ts tname, strip_suffix s_ts fname with
          | Some stem, Some fstem =>
              let expected := list_str_eqb fn tn in
              let got := is_same_file from s in
              if kf_stem stem || kf_stem fstem then (if Bool.eqb expected got then 4 else 2)
              else if Bool.eqb expected got then 1 else 3
          | _, _ => 0
          end
      | _, _, _ => 0
      end
  | _, _, _, _ => 0
  end.
