(* C12: serde's representation of the library types ts-rs supports out of the box, as a hand-written
   specification table (from the crates' Serialize impls; pinned against real serde_json output on
   every run by the C12 harness), and the comparison with the rows of impl_primitives! REGENERATED
   from ts-rs/src/lib.rs (Gen/Tables.v).  Definitions only. *)
From TsRs Require Import Base.Str Gen.Tables.
Open Scope string_scope.
Open Scope list_scope.

Inductive repr := RepInt | RepBigInt | RepFloat | RepBool | RepString | RepUnit.

(* Rust leaf type (as written in impl_primitives!) -> how serde_json writes its values *)
Definition serde_repr : list (str * repr) :=
  map (fun n => (lit n, RepInt)) ["u8"; "i8"; "NonZeroU8"; "NonZeroI8"; "u16"; "i16"; "NonZeroU16"; "NonZeroI16";
                                  "u32"; "i32"; "NonZeroU32"; "NonZeroI32"; "usize"; "isize"; "NonZeroUsize"; "NonZeroIsize"] ++
  map (fun n => (lit n, RepBigInt)) ["u64"; "i64"; "NonZeroU64"; "NonZeroI64"; "u128"; "i128"; "NonZeroU128"; "NonZeroI128"] ++
  map (fun n => (lit n, RepFloat)) ["f32"; "f64"; "ordered_float::OrderedFloat<f32>"; "ordered_float::OrderedFloat<f64>"; "serde_json::Number"] ++
  [(lit "bool", RepBool); (lit "()", RepUnit)] ++
  map (fun n => (lit n, RepString)) ["char"; "Path"; "PathBuf"; "String"; "str"; "Ipv4Addr"; "Ipv6Addr"; "IpAddr"; "SocketAddrV4";
                                     "SocketAddrV6"; "SocketAddr"; "bigdecimal::BigDecimal"; "smol_str::SmolStr"; "uuid::Uuid"; "url::Url";
                                     "bson::oid::ObjectId"; "bson::Uuid"; "semver::Version";
                                     "NaiveDateTime"; "NaiveDate"; "NaiveTime"; "Month"; "Weekday"; "Duration"].

Definition ts_of_repr (r : repr) : str :=
  match r with
  | RepInt | RepFloat => lit "number"
  | RepBigInt => lit "bigint"
  | RepBool => lit "boolean"
  | RepString => lit "string"
  | RepUnit => lit "null"
  end.

Fixpoint rlookup (k : str) (t : list (str * repr)) : option repr :=
  match t with [] => None | (x, r) :: rest => if str_eqb x k then Some r else rlookup k rest end.

(* every row of impl_primitives! names a type of the specification and reports the TypeScript
   type of its serde representation; 64- and 128-bit integers are bigint *)
Definition primitive_rows_ok : bool :=
  forallb (fun row => match rlookup (snd (fst row)) serde_repr with
                      | Some r => str_eqb (snd row) (ts_of_repr r)
                      | None => false
                      end) primitive_rows.

(* the transparent wrappers and the shadows are the expected ones *)
Definition wrapper_targets : list str :=
  map lit ["&T"; "Box<T>"; "std::sync::Arc<T>"; "std::rc::Rc<T>"; "std::borrow::Cow<'a, T>"; "std::cell::Cell<T>";
           "std::cell::RefCell<T>"; "std::sync::Mutex<T>"; "std::sync::RwLock<T>"; "std::sync::Weak<T>"; "std::marker::PhantomData<T>"].
Definition wrapper_rows_ok : bool :=
  forallb (fun row => existsb (fun w => ends_with (lit " TS for " ++ w) (snd row)) wrapper_targets) wrapper_rows.

Definition shadow_spec : list (str * str) :=
  [(lit "RangeInclusive<I>", lit "Range<I>"); (lit "HashSet<T, H>", lit "Vec<T>"); (lit "BTreeSet<T>", lit "Vec<T>");
   (lit "BTreeMap<K, V>", lit "HashMap<K, V>"); (lit "[T]", lit "Vec<T>"); (lit "indexmap::IndexSet<T>", lit "Vec<T>");
   (lit "indexmap::IndexMap<K, V>", lit "HashMap<K, V>"); (lit "heapless::Vec<T, N>", lit "Vec<T>");
   (lit "bytes::Bytes", lit "Vec<u8>"); (lit "bytes::BytesMut", lit "Vec<u8>")].
Definition shadow_rows_ok : bool :=
  forallb (fun row => existsb (fun sp => starts_with (lit "as " ++ snd sp ++ lit ": ") (snd row) &&
                                         ends_with (lit " TS for " ++ fst sp) (snd row)) shadow_spec) shadow_rows.

Definition limits_ok : bool := Nat.eqb ARRAY_TUPLE_LIMIT 64 && Nat.eqb tuple_max_arity 10.
