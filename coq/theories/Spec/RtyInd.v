(* Induction principle for the nested inductive `rty`. *)
From TsRs Require Import Base.Str Model.Rust.

Section RtyInd.
Variable P : rty -> Prop.
Hypothesis Hleaf : forall l, P (RLeaf l).
Hypothesis Hopt : forall t, P t -> P (ROption t).
Hypothesis Hvec : forall t, P t -> P (RVec t).
Hypothesis Harr : forall n t, P t -> P (RArray n t).
Hypothesis Htup : forall ts, Forall P ts -> P (RTuple ts).
Hypothesis Hmap : forall k v, P k -> P v -> P (RMap k v).
Hypothesis Hwrap : forall t, P t -> P (RWrap t).
Hypothesis Hres : forall t e, P t -> P e -> P (RResult t e).
Hypothesis Hrange : forall t, P t -> P (RRange t).
Hypothesis Hnamed : forall id args, Forall P args -> P (RNamed id args).
Hypothesis Hparam : forall i, P (RParam i).
Hypothesis Hdummy : forall n, P (RDummy n).

Fixpoint rty_ind' (t : rty) : P t :=
  let fix all (l : list rty) : Forall P l :=
    match l with
    | [] => Forall_nil P
    | x :: r => Forall_cons x (rty_ind' x) (all r)
    end in
  match t with
  | RLeaf l => Hleaf l
  | ROption t => Hopt t (rty_ind' t)
  | RVec t => Hvec t (rty_ind' t)
  | RArray n t => Harr n t (rty_ind' t)
  | RTuple ts => Htup ts (all ts)
  | RMap k v => Hmap k v (rty_ind' k) (rty_ind' v)
  | RWrap t => Hwrap t (rty_ind' t)
  | RResult t e => Hres t e (rty_ind' t) (rty_ind' e)
  | RRange t => Hrange t (rty_ind' t)
  | RNamed id args => Hnamed id args (all args)
  | RParam i => Hparam i
  | RDummy n => Hdummy n
  end.
End RtyInd.
