(* Decidable well-formedness of the syntax tree of a generated type / declaration: the conditions under
   which its printed text is derivable in Spec/TsGrammar.v (Proofs/Grammar_proofs.v).  Evaluated on the
   model's declarations of the generated corpus on every run (whose text equals the real text byte for
   byte); what falls outside is the known classes of C04 (a double quote inside a name, a reserved word as type
   name) and user-supplied text (the `type` override).  Definitions only. *)
From TsRs Require Import Base.Str Model.TsAst Spec.TsGrammar Spec.TsFree Spec.TsSem.
From Coq Require Import List NArith Bool.
Import ListNotations.
Open Scope N_scope.

Section Syn.
Variable is_alnum is_numeric : char -> bool.

Definition identb (s : str) : bool :=
  forallb (id_char is_alnum) s && match s with [] => false | c :: _ => negb (is_numeric c) end.
Definition type_nameb (s : str) : bool := (identb s && negb (reserved s)) || str_eqb s (lit "null"%string).
Definition decl_nameb (s : str) : bool := identb s && negb (reserved s) && negb (predefined s).
Definition cleanb (s : str) : bool := forallb str_char s.

(* a body between double quotes, body clean *)
Definition quotedb (s : str) : bool :=
  match s with
  | c :: r => (c =? 34) && match rev r with c2 :: b => (c2 =? 34) && cleanb b | [] => false end
  | [] => false
  end.

(* a JSDoc block: slash star, a body free of the terminator, star slash, newline; or nothing *)
Definition block_body (d : str) : option str :=
  match d with
  | c1 :: c2 :: r =>
      if (c1 =? 47) && (c2 =? 42)
      then match rev r with
           | x1 :: x2 :: x3 :: b => if (x1 =? 10) && (x2 =? 47) && (x3 =? 42) then Some (rev b) else None
           | _ => None
           end
      else None
  | _ => None
  end.
Definition docs_okb (d : str) : bool :=
  match d with
  | [] => true
  | _ => match block_body d with Some b => no_close b | None => false end
  end.

Definition head_okb (p : phead) : bool := (identb (p_text p) || quotedb (p_text p)) && docs_okb (p_docs p).

Definition is_nil {A} (l : list A) : bool := match l with [] => true | _ => false end.

Fixpoint syn_ok (t : tsty) : bool :=
  match t with
  | TPrim n | TVar n | TVarF n => type_nameb n
  | TRef n args => type_nameb n && forallb syn_ok args
  | TArray u | TParen u => syn_ok u
  | TNeverArr | TRecordNever => true
  | TTuple ts => forallb syn_ok ts
  | TObj _ props => forallb (fun p => head_okb (fst p) && syn_ok (snd p)) props
  | TMapped k v | TResult k v => syn_ok k && syn_ok v
  | TUnion ts | TInter ts => negb (is_nil ts) && forallb syn_ok ts
  | TLit s => cleanb s
  | TRaw _ | TMerged _ | TUnwrap _ => false
  end.

(* the textual rewrites of flattening (TMerged, TUnwrap) are admitted when the text they produce is the text
   of the structurally rewritten tree (norm_ok, Spec/TsSem.v), which is then checked instead *)
Definition syn_okn (t : tsty) : bool := syn_ok t || (norm_ok t && syn_ok (norm t)).

Definition param_ok (p : str * option tsty) : bool :=
  decl_nameb (fst p) && match snd p with None => true | Some d => syn_okn d end.

Definition decl_ok (d : tsdecl) : bool :=
  decl_nameb (d_name d) && forallb param_ok (d_params d) && syn_okn (d_body d).

(* the import statements of a file: clean specifiers, at least one declarable name each *)
Definition imports_okb (m : list (str * list str)) : bool :=
  forallb (fun e => cleanb (fst e) && negb (is_nil (snd e)) && forallb decl_nameb (snd e)) m.

(* ASCII letters are identifier characters and not numeric (true of char::is_alphanumeric / is_numeric) *)
Definition letters : list char := map N.of_nat (seq 65 26 ++ seq 97 26).
Definition classes_ok : bool := forallb (fun c => is_alnum c && negb (is_numeric c)) letters.
End Syn.
