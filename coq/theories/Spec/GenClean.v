(* C04: the definitions on which the derive provably builds a checked syntax tree (`clean_envb`, a boolean
   evaluated on the generated corpus on every run), and the shape of the trees it builds there (`gshape`).
   Clean = names that need no escaping: the TypeScript name of every definition and parameter is declarable,
   property names / variant names / tag keys (after renaming) contain no quote, backslash or line break and
   property names are not empty; `export_to` paths likewise; no `type = ".."` override (user text); `flatten` of structs that have
   named fields of their own and flatten nothing themselves, and of enums into hosts with a field of their own.  Everything else
   is free: shapes, generics, defaults, `as`, `inline`, `optional`, all four enum representations, `skip`,
   `untagged` variants, documentation of any content.  Definitions only. *)
From TsRs Require Import Base.Str Base.Outcome Model.Case Model.TsAst Model.Rust Model.Gen Spec.TsGrammar Spec.TsSyn.
From Coq Require Import List NArith Bool.
Import ListNotations.

Section C.
Variable is_upper is_alnum is_numeric : char -> bool.

Definition is_objb (t : tsty) : bool := match t with TObj _ _ => true | _ => false end.

(* a non-empty struct object, bare or under the merge marker: what a struct without flattened fields hands to a host *)
Definition is_sobj (t : tsty) : bool :=
  match t with
  | TObj OStruct (_ :: _) => true
  | TMerged (TObj OStruct (_ :: _)) => true
  | _ => false
  end.

Definition is_paren (t : tsty) : bool := match t with TParen _ => true | _ => false end.

(* syn_ok, plus the merge marker around an object literal (what named.rs builds when nothing is flattened), around the
   operands `own object & flattened struct & ..`, or around a lone flattened struct *)
Fixpoint gshape (t : tsty) : bool :=
  match t with
  | TPrim n | TVar n | TVarF n => type_nameb is_alnum is_numeric n
  | TRef n args => type_nameb is_alnum is_numeric n && forallb gshape args
  | TArray u | TParen u => gshape u
  | TNeverArr | TRecordNever => true
  | TTuple ts => forallb gshape ts
  | TObj _ props => forallb (fun p => head_okb is_alnum is_numeric (fst p) && gshape (snd p)) props
  | TMapped k v | TResult k v => gshape k && gshape v
  | TUnion ts | TInter ts => negb (is_nil ts) && forallb gshape ts
  | TLit s => cleanb s
  | TMerged u =>
      match u with
      | TObj _ _ => gshape u
      | TInter l => negb (is_nil l) && forallb (fun x => (is_sobj x || is_paren x) && gshape x) l   (* own object, flattened struct objects, flattened enums *)
      | TUnwrap x => is_sobj x && gshape x                                          (* a lone flattened struct *)
      | _ => false
      end
  | TRaw _ | TUnwrap _ => false
  end.

(* a Rust type whose dummy parameter types carry usable names *)
Fixpoint rty_clean (t : rty) : bool :=
  match t with
  | RLeaf _ | RParam _ => true
  | ROption u | RVec u | RArray _ u | RWrap u | RRange u => rty_clean u
  | RTuple ts => forallb rty_clean ts
  | RMap k v | RResult k v => rty_clean k && rty_clean v
  | RNamed _ args => forallb rty_clean args
  | RDummy n => type_nameb is_alnum is_numeric n
  end.

Definition no_text (o : option str) : bool := match o with None => true | Some _ => false end.

Variable R : env.

(* a struct that can be flattened into a host: named fields, none of them flattened or overridden away, at least one
   property (a live field or the tag), no `as` / `type` on the container *)
Definition flat_simple (d : typedef) : bool :=
  match d with
  | DStruct a (SNamed fs) =>
      no_text (c_type a) && match c_as a with None => true | Some _ => false end &&
      forallb (fun f => f_skip f || negb (f_flatten f)) fs &&
      (match c_tag a with Some _ => true | None => false end || existsb (fun f => negb (f_skip f)) fs)
  | _ => false
  end.
(* an enum that can be flattened into a host: at least one live variant, no `as` / `type` on the container *)
Definition flat_enum (d : typedef) : bool :=
  match d with
  | DEnum a _ _ vs => no_text (c_type a) && match c_as a with None => true | Some _ => false end && existsb (fun v => negb (v_skip v)) vs
  | _ => false
  end.
Fixpoint flat_target_e (t : rty) : bool :=
  match t with
  | RWrap u => flat_target_e u
  | RNamed id args => match lookup R id with Some d => flat_enum d && forallb rty_clean args | None => false end
  | _ => false
  end.
Fixpoint flat_target (t : rty) : bool :=
  match t with
  | RWrap u => flat_target u
  | RNamed id args => match lookup R id with Some d => flat_simple d && forallb rty_clean args | None => false end
  | _ => false
  end.
Definition key_okb (k : str) : bool := negb (is_nil k) && cleanb k.

Definition field_cleanb (ra : option rule) (f : field) : bool :=
  f_skip f || (no_text (f_type f) &&
               if f_flatten f then flat_target (f_ty f) || flat_target_e (f_ty f) else rty_clean (f_ty f) && key_okb (field_key ra f)).
Definition tfield_cleanb (f : field) : bool := f_skip f || (no_text (f_type f) && rty_clean (f_ty f)).

Definition shape_cleanb (ra : option rule) (s : shape) : bool :=
  match s with
  | SUnit => true
  | STuple fs => forallb tfield_cleanb fs
  | SNamed fs =>
      (* a host that flattens an enum has a property of its own (a lone flattened enum has its parentheses stripped textually) *)
      forallb (field_cleanb ra) fs &&
      (negb (existsb (fun f => negb (f_skip f) && f_flatten f && flat_target_e (f_ty f)) fs) ||
       existsb (fun f => negb (f_skip f) && negb (f_flatten f)) fs)
  end.

Definition variant_cleanb (a : cattrs) (raf : option rule) (v : variant) : bool :=
  v_skip v || (no_text (v_type v) && cleanb (variant_name is_upper (c_rename_all a) v) &&
               match v_as v with
               | Some u => rty_clean u
               | None => shape_cleanb (variant_rename_all raf v) (v_shape v)
               end).

Definition tag_cleanb (tg : tagging) : bool :=
  match tg with Internal t => cleanb t | Adjacent t c => cleanb t && cleanb c | _ => true end.

Definition param_cleanb (p : str * option rty) : bool :=
  decl_nameb is_alnum is_numeric (fst p) && match snd p with Some u => rty_clean u | None => true end.

Definition def_cleanb (d : typedef) : bool :=
  let a := attrs_of d in
  no_text (c_type a) && decl_nameb is_alnum is_numeric (ts_ident d) && cleanb (ts_ident d) &&
  match c_export_to a with Some s => cleanb s | None => true end && forallb param_cleanb (c_params a) &&
  match c_as a with
  | Some u => rty_clean u
  | None =>
      match d with
      | DStruct a s => match c_tag a with Some t => cleanb t | None => true end && shape_cleanb (c_rename_all a) s
      | DEnum a tg raf vs => tag_cleanb tg && forallb (variant_cleanb a raf) vs
      end
  end.

End C.

Definition clean_envb (is_upper is_alnum is_numeric : char -> bool) (R : env) : bool :=
  forallb (fun p => def_cleanb is_upper is_alnum is_numeric R (snd p)) R.
