(* C16 — the derive is total: no panics; conflicts are diagnosed; the rest compiles.  Statements only.
   PROVED: for every item — any attribute token lists at any of the four positions, any shapes —
   expansion (attribute parsing, the four assert_validity, shape dispatch; Model/Validity.v over
   Model/Attr.v) ends in tokens or a compile error, never a panic; every documented incompatible
   combination is rejected.  That accepted expansions compile is rustc's judgement: it is decided by
   compiling the generated corpus (partial). *)
From TsRs Require Import Base.Str Base.Outcome Gen.Tables Model.Attr Model.Validity Proofs.Validity_proofs Proofs.Validity_table_proofs.
From Coq Require Import List.
Import ListNotations.

Theorem C16_no_panic :
  forall compat i m, expand compat i <> Panic m.
Proof. intros compat i. exact (expand_never_panics compat i). Qed.

Theorem C16_attributes_never_panic :
  forall compat pos attrs m, from_attrs compat pos attrs <> Panic m.
Proof. intros compat pos attrs. exact (from_attrs_never_panics compat pos attrs). Qed.

Theorem C16_struct_conflicts_rejected :
  forall r sh, struct_validity r sh = Ok tt ->
    (has "type_override" r = true -> has "type_as" r = false /\ has "rename_all" r = false /\ has "tag" r = false /\ has "optional_fields" r = false) /\
    (has "type_as" r = true -> has "tag" r = false /\ has "rename_all" r = false /\ has "optional_fields" r = false) /\
    (sh <> FNamed -> has "tag" r = false /\ has "rename_all" r = false /\ has "optional_fields" r = false).
Proof. exact struct_conflicts_rejected. Qed.

Theorem C16_enum_conflicts_rejected :
  forall r, enum_validity r = Ok tt ->
    (has "type_override" r = true -> has "type_as" r = false /\ has "rename_all" r = false /\ has "rename_all_fields" r = false /\
                                     has "tag" r = false /\ has "content" r = false /\ has "untagged" r = false) /\
    (has "type_as" r = true -> has "rename_all" r = false /\ has "rename_all_fields" r = false /\ has "tag" r = false /\
                               has "content" r = false /\ has "untagged" r = false) /\
    (has "untagged" r = true -> has "tag" r = false /\ has "content" r = false) /\
    (has "content" r = true -> has "tag" r = true).
Proof. exact enum_conflicts_rejected. Qed.

Theorem C16_variant_conflicts_rejected :
  forall r sh, variant_validity r sh = Ok tt ->
    (has "type_as" r = true -> has "type_override" r = false /\ has "rename_all" r = false) /\
    (has "type_override" r = true -> has "rename_all" r = false /\ has "inline" r = false) /\
    (sh <> FNamed -> has "rename_all" r = false).
Proof. exact variant_conflicts_rejected. Qed.

Theorem C16_field_conflicts_rejected :
  forall c r named, field_validity c r named = Ok tt ->
    (c = true -> has "using_serde_with" r = true -> has "type_as" r = true \/ has "type_override" r = true) /\
    (has "type_override" r = true -> has "type_as" r = false /\ has "inline" r = false /\ has "flatten" r = false /\ has "optional" r = false) /\
    (has "flatten" r = true -> has "type_as" r = false /\ has "rename" r = false /\ has "inline" r = false /\ has "optional" r = false) /\
    (named = false -> has "flatten" r = false /\ has "rename" r = false /\ has "optional" r = false).
Proof. exact field_conflicts_rejected. Qed.

(* the `expect` of StructAttr::from_variant is unreachable *)
Theorem C16_tagged_checked_before_use :
  forall r, enum_validity r = Ok tt -> tagged_ok r = true.
Proof. exact enum_validity_tagged. Qed.

(* the four assert_validity functions of the model ARE the decision rows the translator reads from
   macros/src/attr/{struct,enum,variant,field}.rs on every run (conditions, messages and their order) *)
Theorem C16_validity_is_the_source_table :
  (forall r sh, struct_validity r sh = run_rows false (not_named sh) r validity_rows_struct) /\
  (forall r, enum_validity r = run_rows false false r validity_rows_enum) /\
  (forall r sh, variant_validity r sh = run_rows false (not_named sh) r validity_rows_variant) /\
  (forall compat r named, field_validity compat r named = run_rows compat (negb named) r validity_rows_field).
Proof.
  split; [exact struct_validity_is_table|]. split; [exact enum_validity_is_table|].
  split; [exact variant_validity_is_table | exact field_validity_is_table].
Qed.

Print Assumptions C16_no_panic.
Print Assumptions C16_validity_is_the_source_table.
Print Assumptions C16_attributes_never_panic.
Print Assumptions C16_struct_conflicts_rejected.
Print Assumptions C16_enum_conflicts_rejected.
Print Assumptions C16_variant_conflicts_rejected.
Print Assumptions C16_field_conflicts_rejected.
Print Assumptions C16_tagged_checked_before_use.
