(* C05 — several types in one file: order-independent, idempotent, lossless merge.
   Property theorems only; each is closed by `exact` of a lemma from Proofs/. *)
From TsRs Require Import Base.Str Base.Outcome Gen.Tables Model.Merge Model.MergeSpec.
From TsRs Require Import Model.MergeConc.
From TsRs Require Import Proofs.Merge_algebra_proofs Proofs.Merge_bridge_proofs Proofs.Merge_history_proofs.
From Coq Require Import Sorting.Permutation Sorting.Sorted.

(* The textual merge of the Rust code (Model/Merge.v, a statement-by-statement transcription on
   strings) computes, on well-formed texts, exactly the structured merge: union of the import groups
   in normal form, the new block inserted in key order; and the in-place rewrite from offset
   NOTE.len() leaves no stale tail. *)
Theorem C05_merge_bridge :
  forall im bs i,
    norm_imports im = im ->
    forallb wf_group im = true -> bs <> [] -> forallb wf_block bs = true -> wf_item i = true ->
    merge_into_file (render_file im bs) (item_text i)
    = Ok (render_file (norm_imports (im ++ it_imports i)) (insert_block (it_block i) bs)).
Proof. exact merge_into_file_bridge. Qed.
Print Assumptions C05_merge_bridge.

(* The canonical file does not depend on the order of the items: imports ... *)
Theorem C05_imports_order_free :
  forall l l', Permutation l l' -> norm_imports l = norm_imports l'.
Proof. exact norm_imports_perm. Qed.
Print Assumptions C05_imports_order_free.

(* ... are the union, nothing lost, nothing invented, each path and each name once ... *)
Theorem C05_imports_union :
  forall l p t,
    (exists ts, In (p, ts) (norm_imports l) /\ In t ts) <-> (exists ts, In (p, ts) l /\ In t ts).
Proof. exact norm_imports_spec. Qed.
Print Assumptions C05_imports_union.

Theorem C05_imports_once :
  forall l, NoDup (map fst (norm_imports l)) /\ Forall (fun e => NoDup (snd e)) (norm_imports l).
Proof. exact norm_imports_nodup. Qed.
Print Assumptions C05_imports_once.

(* ... and the declarations come out in key order, each exactly once, whatever the arrival order *)
Theorem C05_blocks_order_free :
  forall bs bs', keys_distinct bs -> Permutation bs bs' -> sort_blocks bs = sort_blocks bs'.
Proof. exact sort_blocks_perm. Qed.
Print Assumptions C05_blocks_order_free.

Theorem C05_blocks_sorted_once :
  forall bs, keys_distinct bs ->
    StronglySorted (fun a b => str_ltb (key_of a) (key_of b) = true) (sort_blocks bs) /\
    Permutation (sort_blocks bs) bs.
Proof. intros bs H. split; [exact (sort_blocks_sorted bs H) | exact (sort_blocks_permutation bs)]. Qed.
Print Assumptions C05_blocks_sorted_once.

Theorem C05_canonical_order_free :
  forall h h', keys_distinct (map it_block h) -> Permutation h h' -> canonical_file h = canonical_file h'.
Proof. exact canonical_file_perm. Qed.
Print Assumptions C05_canonical_order_free.

(* every exported declaration is in the canonical file, intact (doc comment included) *)
Theorem C05_canonical_lossless :
  forall h i, In i h -> exists pre post, canonical_file h = pre ++ [nl] ++ it_block i ++ [nl] ++ post.
Proof. exact canonical_file_lossless. Qed.
Print Assumptions C05_canonical_lossless.

(* Exporting a type that is already in the file changes nothing (file and registry). *)
Theorem C05_reexport_noop :
  forall st ident text old,
    f_content st = Some old -> existsb (str_eqb ident) (f_names st) = true ->
    export_raw st ident text = Ok st.
Proof. intros st ident text old H1 H2. unfold export_raw. rewrite H1, H2. reflexivity. Qed.
Print Assumptions C05_reexport_noop.

(* ---- histories on one shared file (the statement of the property) ---------------------------
   `good_history`: well-formed texts, distinct registry names, distinct sort keys, import groups in
   the normal form generate_imports produces (excluded inputs are the known classes). *)

(* whatever the order, the final file is byte for byte the canonical file: the notice, the union of
   the imports (each name once, sorted), every declaration intact exactly once in key order *)
Theorem C05_final_file_canonical :
  forall h, h <> [] -> good_history h -> file_after h = Ok (Some (canonical_file h)).
Proof. exact file_after_canonical. Qed.
Print Assumptions C05_final_file_canonical.

Theorem C05_order_independent :
  forall h h', good_history h -> Permutation h h' -> file_after h = file_after h'.
Proof. exact file_after_perm. Qed.
Print Assumptions C05_order_independent.

(* every prefix of every order: the canonical file of what was exported so far *)
Theorem C05_prefixes :
  forall h h' p rest, good_history h -> Permutation h h' -> h' = p ++ rest -> p <> [] ->
    file_after p = Ok (Some (canonical_file p)).
Proof. exact file_after_prefix. Qed.
Print Assumptions C05_prefixes.

(* exporting again something already exported changes nothing, wherever it happens *)
Theorem C05_idempotent :
  forall h1 h2 i, good_history (h1 ++ h2) -> In i h1 ->
    file_after (h1 ++ i :: h2) = file_after (h1 ++ h2).
Proof. exact file_after_reexport. Qed.
Print Assumptions C05_idempotent.

Theorem C05_lossless :
  forall h i, good_history h -> In i h ->
    exists pre post, file_after h = Ok (Some (pre ++ [nl] ++ it_block i ++ [nl] ++ post)).
Proof. exact file_after_lossless. Qed.
Print Assumptions C05_lossless.

(* ---- concurrent threads: every complete schedule of the micro-step model (export_and_merge
   under the registry mutex, Model/MergeConc.v) is equivalent to the serial history in the order in
   which the threads took the mutex, hence ends with the canonical file *)
Theorem C05_schedules_serializable :
  forall items sched,
    good_history items ->
    all_done (run_schedule items sched) = true ->
    let order := lock_order items sched in
    Permutation order (seq 0 (length items)) /\
    Ok (c_shared (run_schedule items sched))
    = run_history f_init (map (fun k => nth k items {| it_ident := []; it_imports := []; it_block := [] |}) order).
Proof. exact schedule_serializable. Qed.
Print Assumptions C05_schedules_serializable.

Theorem C05_schedules_confluent :
  forall items sched,
    items <> [] -> good_history items ->
    all_done (run_schedule items sched) = true ->
    f_content (c_shared (run_schedule items sched)) = Some (canonical_file items).
Proof. exact schedule_confluent. Qed.
Print Assumptions C05_schedules_confluent.

(* Non-vacuity: three concrete items (doc comment, generics, overlapping imports) meet every
   hypothesis, and two different orders with a repetition give the canonical file. *)
Definition exA := {| it_ident := lit "A"; it_imports := [(lit "./x", [lit "X"; lit "Y"])]; it_block := lit "export type A = X | Y;" |}.
Definition exB := {| it_ident := lit "B"; it_imports := [(lit "./w", [lit "W"]); (lit "./x", [lit "X"; lit "Z"])];
                     it_block := lit "/** doc */" ++ [nl] ++ lit "export type B<T, U> = { a: W, };" |}.
Definition exC := {| it_ident := lit "C"; it_imports := []; it_block := lit "export type C = null;" |}.
Example C05_nonvacuous :
  forallb wf_item [exA; exB; exC] = true /\
  file_after [exB; exC; exA] = Ok (Some (canonical_file [exA; exB; exC])) /\
  file_after [exA; exB; exC; exB] = Ok (Some (canonical_file [exA; exB; exC])).
Proof. vm_compute. repeat split. Qed.
