(* C05 — several types in one file: order-independent, idempotent, lossless merge. *)
From TsRs Require Import Base.Str Base.Outcome Gen.Tables Model.Merge Model.MergeSpec.

(* Exporting a type that is already in the file changes nothing (file and registry). *)
Theorem C05_reexport_noop :
  forall st ident text old,
    f_content st = Some old -> existsb (str_eqb ident) (f_names st) = true ->
    export_raw st ident text = Ok st.
Proof. intros st ident text old H1 H2. unfold export_raw. rewrite H1, H2. reflexivity. Qed.
Print Assumptions C05_reexport_noop.
