(* C13 — bindings are a deterministic function of the source and configuration.  Statements only.
   name(), inline(), decl(), decl_concrete() take no visiting order at all in the model (the order
   only exists in visit_dependencies(), a HashSet iteration); what is proved is that everything
   downstream of that order is order-free. *)
From TsRs Require Import Base.Str Base.Outcome Gen.Tables Model.Case Model.TsAst Model.Rust Model.Docs Model.Gen Model.Path Model.Merge Model.MergeSpec Model.GenExport Proofs.Merge_algebra_proofs Proofs.GenExport_proofs Proofs.Determinism_proofs.
From Coq Require Import List Permutation.
Import ListNotations.

(* import statements: a function of the SET of dependencies (equal names = same dependency) *)
Theorem C13_imports_order_free :
  forall R esm cwd t out_dir deps deps',
    name_functional deps -> Permutation deps deps' ->
    import_groups R esm cwd t out_dir deps = import_groups R esm cwd t out_dir deps'.
Proof. exact import_groups_order_free. Qed.

Theorem C13_dedup_order_free :
  forall (l l' : list (rty * str * str)),
    name_functional l -> Permutation l l' ->
    fold_left (fun m e => dep_insert e m) l [] = fold_left (fun m e => dep_insert e m) l' [].
Proof. exact dedup_order_free. Qed.

(* several types in one file: the merged import block does not depend on the order of the merges
   (the declaration part is C05_confluent) *)
Theorem C13_merged_imports_order_free :
  forall l l', Permutation l l' -> norm_imports l = norm_imports l'.
Proof. exact norm_imports_perm. Qed.

Print Assumptions C13_imports_order_free.
Print Assumptions C13_dedup_order_free.
Print Assumptions C13_merged_imports_order_free.
