(* C13 — bindings are a deterministic function of the source and configuration.  Statements only.
   name(), inline(), decl(), decl_concrete() take no visiting order at all in the model (the order
   only exists in visit_dependencies(), a HashSet iteration); what is proved is that everything
   downstream of that order is order-free. *)
From TsRs Require Import Base.Str Base.Outcome Gen.Tables Model.Case Model.TsAst Model.Rust Model.Docs Model.Gen Model.Path Model.Merge Model.MergeSpec Model.GenExport Proofs.Merge_algebra_proofs Proofs.GenExport_proofs Proofs.Determinism_proofs.
From Coq Require Import List Permutation.
Import ListNotations.

(* import statements: a function of the SET of dependencies (equal names = same dependency) *)
Theorem C13_imports_order_free :
  forall R esm cwd t out_dir deps deps',
    name_functional deps -> Permutation deps deps' ->
    import_groups R esm cwd t out_dir deps = import_groups R esm cwd t out_dir deps'.
Proof. exact import_groups_order_free. Qed.

Theorem C13_dedup_order_free :
  forall (l l' : list (rty * str * str)),
    name_functional l -> Permutation l l' ->
    fold_left (fun m e => dep_insert e m) l [] = fold_left (fun m e => dep_insert e m) l' [].
Proof. exact dedup_order_free. Qed.

(* several types in one file: the merged import block does not depend on the order of the merges
   (the declaration part is C05_confluent) *)
Theorem C13_merged_imports_order_free :
  forall l l', Permutation l l' -> norm_imports l = norm_imports l'.
Proof. exact norm_imports_perm. Qed.

(* not only the order: a dependency may be visited any number of times (the generated
   visit_dependencies() de-duplicates by Rust type, the import block by name); only the SET of
   visited dependencies shows.  First-wins versus last-wins de-duplication cannot be observed. *)
Theorem C13_imports_depend_on_the_set_only :
  forall R esm cwd t out_dir deps deps',
    name_functional deps -> (forall x, In x deps <-> In x deps') ->
    import_groups R esm cwd t out_dir deps = import_groups R esm cwd t out_dir deps'.
Proof. exact import_groups_set_free. Qed.

(* the whole text of export_to_string::<T>(): whatever order and repetitions the generated
   visit_dependencies() reports its dependencies in, the text is the one of the model's own order *)
Theorem C13_export_string_visit_free :
  forall iu ia inum R esm cwd fuel t dir deps deps',
    dependencies_of R fuel (without_generics t) = Ok deps ->
    name_functional deps -> (forall x, In x deps <-> In x deps') ->
    export_string_with iu ia inum R esm cwd fuel t dir deps' = export_string iu ia inum R esm cwd fuel t dir.
Proof. exact export_string_visit_free. Qed.

(* non-vacuity: two visits of B and a different order give the same de-duplicated list *)
Example C13_nonvacuous_set :
  let a : rty * str * str := (RNamed (lit "A") [], lit "A", lit "a.ts") in
  let b : rty * str * str := (RNamed (lit "B") [], lit "B", lit "b.ts") in
  name_functional [a; b] /\ (forall x, In x [a; b] <-> In x [b; a; b]) /\
  fold_left (fun m e => dep_insert e m) [b; a; b] [] = [a; b].
Proof.
  cbv zeta. split; [|split].
  - intros x y [<-|[<-|[]]] [<-|[<-|[]]] H; try reflexivity; vm_compute in H; discriminate H.
  - intros x; cbn [In]; tauto.
  - vm_compute. reflexivity.
Qed.

Print Assumptions C13_imports_order_free.
Print Assumptions C13_dedup_order_free.
Print Assumptions C13_merged_imports_order_free.
Print Assumptions C13_imports_depend_on_the_set_only.
Print Assumptions C13_export_string_visit_free.
