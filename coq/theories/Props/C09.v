(* C09 — rename_all yields the names serde puts on the wire, for every identifier.
   Property theorems only; each is closed by `exact` of a lemma from Proofs/. *)
From TsRs Require Import Base.Str Base.Outcome Model.Case Model.Rust Model.Gen Spec.Serde Spec.SerdeCase Proofs.Case_proofs Proofs.Case_gen_proofs.

(* For every classification of upper-case characters, every position (struct field / struct-variant
   field = Field, enum variant = Variant), every one of the eight rules and EVERY identifier (any
   list of scalar values: unconventional case, underscores anywhere, digits, non-ASCII): if serde
   derives a wire name at all, the TypeScript binding carries exactly that name. *)
Theorem C09_rename_agrees :
  forall (is_upper : char -> bool) (p : position) (r : rule) (id n : str),
    serde_rename is_upper p r id = Ok n -> ts_rename is_upper p r id = n.
Proof. exact rename_agrees. Qed.
Print Assumptions C09_rename_agrees.

(* serde produces no name only where serde_derive itself panics (camelCase on an identifier whose
   PascalCase form is empty or starts with a non-ASCII character); such a type does not "derive
   both", so the property does not speak about it.  ts-rs stays total there (C16). *)
Theorem C09_serde_undefined_only_on_camel :
  forall (is_upper : char -> bool) (p : position) (r : rule) (id m : str),
    serde_rename is_upper p r id = Panic m ->
    r = Camel /\ match (match p with Field => pascal_loop true id | Variant => id end) with
                 | [] => True | c :: _ => utf8_len c <> 1 end.
Proof. exact serde_rename_fails. Qed.
Print Assumptions C09_serde_undefined_only_on_camel.

Theorem C09_serde_never_err :
  forall (is_upper : char -> bool) p r id m, serde_rename is_upper p r id <> Err m.
Proof. exact serde_rename_never_err. Qed.
Print Assumptions C09_serde_never_err.

(* In the derive model itself: the key printed for a struct field / struct-variant field and the
   literal printed for a variant (explicit rename first, then rename_all / rename_all_fields, then
   the identifier) are what serde_derive computes with its own routines, under any setting. *)
Theorem C09_printed_field_key_is_serde_key :
  forall (is_upper : char -> bool) (rename_all : option rule) (f : field) (n : str),
    serde_field_key is_upper rename_all f = Ok n -> Gen.field_key rename_all f = n.
Proof. exact gen_field_key_agrees. Qed.
Print Assumptions C09_printed_field_key_is_serde_key.

Theorem C09_printed_variant_name_is_serde_name :
  forall (is_upper : char -> bool) (rename_all : option rule) (v : variant) (n : str),
    serde_variant_name is_upper rename_all v = Ok n -> Gen.variant_name is_upper rename_all v = n.
Proof. exact gen_variant_name_agrees. Qed.
Print Assumptions C09_printed_variant_name_is_serde_name.

(* the wire specification of C01/C02 (Spec/Serde.v) names keys and tags as serde_derive does *)
Theorem C09_wire_spec_keys_are_serde_keys :
  forall (is_upper : char -> bool) (rename_all : option rule),
    (forall f n, serde_field_key is_upper rename_all f = Ok n -> Serde.field_key rename_all f = n) /\
    (forall v n, serde_variant_name is_upper rename_all v = Ok n -> Serde.variant_name is_upper rename_all v = n).
Proof. intros iu ra. split; [exact (spec_field_key_agrees iu ra) | exact (spec_variant_name_agrees iu ra)]. Qed.
Print Assumptions C09_wire_spec_keys_are_serde_keys.

(* Non-vacuity: serde does produce names, also for the unconventional identifiers of the
   property text, and the binding agrees on them. *)
Definition ascii_is_upper (c : char) : bool := is_ascii_upper c.
Example C09_nonvacuous_fooBar_lower :
  serde_rename ascii_is_upper Field Lower (lit "fooBar") = Ok (lit "fooBar") /\
  ts_rename ascii_is_upper Field Lower (lit "fooBar") = lit "fooBar".
Proof. split; reflexivity. Qed.
Example C09_nonvacuous_Foo_Bar_camel :
  serde_rename ascii_is_upper Variant Camel (lit "Foo_Bar") = Ok (lit "foo_Bar") /\
  ts_rename ascii_is_upper Variant Camel (lit "Foo_Bar") = lit "foo_Bar".
Proof. split; reflexivity. Qed.
Example C09_nonvacuous_kebab :
  serde_rename ascii_is_upper Variant ScreamingKebab (lit "FooBar") = Ok (lit "FOO-BAR").
Proof. reflexivity. Qed.
