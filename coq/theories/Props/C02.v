(* C02 — every inhabitant of the generated TypeScript type deserializes.  Statements only.
   What is PROVED here is the structural half of the property ("tag literals, property names,
   required-ness of properties, tuple lengths and union arms of the binding correspond exactly to"
   the Rust item), for every definition and all type arguments; acceptance by serde's Deserialize
   is decided on every run by the real serde_json::from_str on inhabitants enumerated by Coq. *)
From TsRs Require Import Base.Str Base.Outcome Gen.Tables Model.Case Model.TsAst Model.Rust Model.Docs Model.Gen Spec.TsFree Proofs.Gen_shape_proofs.
From Coq Require Import List.
Import ListNotations.

Theorem C02_union_arms_are_the_live_variants :
  forall is_upper is_alnum is_numeric R inl flt a tg raf vs args t fl,
    vs <> [] -> c_type a = None -> c_as a = None ->
    def_body is_upper is_alnum is_numeric R inl flt (DEnum a tg raf vs) args = Ok (t, fl) ->
    exists arms, Forall2 (fun v x => variant_gen is_upper is_alnum is_numeric R inl flt args a tg raf v = Ok x) (live_variants vs) arms /\
      match arms with
      | [] => t = TPrim (lit "never") /\ fl = None
      | _ => t = TUnion arms /\ fl = Some (TParen (TUnion arms))
      end.
Proof. exact enum_arms. Qed.

Theorem C02_tuple_length :
  forall is_alnum is_numeric R inl flt args ra opt tag f1 f2 fs r,
    shape_gen is_alnum is_numeric R inl flt args ra opt tag (STuple (f1 :: f2 :: fs)) = Ok r ->
    exists items, r = (TTuple items, None) /\ length items = length (live (f1 :: f2 :: fs)).
Proof. exact tuple_length. Qed.

Theorem C02_empty_shapes :
  forall is_alnum is_numeric R inl flt args ra opt,
    shape_gen is_alnum is_numeric R inl flt args ra opt None SUnit = Ok (TPrim (lit "null"), None) /\
    shape_gen is_alnum is_numeric R inl flt args ra opt None (STuple []) = Ok (TNeverArr, None) /\
    shape_gen is_alnum is_numeric R inl flt args ra opt None (SNamed []) = Ok (TRecordNever, None).
Proof. exact empty_shapes. Qed.

Theorem C02_empty_enum_is_never :
  forall is_upper is_alnum is_numeric R inl flt a tg raf args,
    c_type a = None -> c_as a = None ->
    def_body is_upper is_alnum is_numeric R inl flt (DEnum a tg raf []) args = Ok (TPrim (lit "never"), None).
Proof. exact empty_enum_never. Qed.

Theorem C02_optional_mark :
  forall is_alnum is_numeric R inl args ra opt fl p,
    prop_of is_alnum is_numeric R inl args ra opt fl = Ok p ->
    p_optional (fst p) = true ->
    f_type fl = None /\
    (f_optional fl <> NotOptional \/ (opt <> NotOptional /\ is_option (rsubst args (f_ty fl)) = true)).
Proof. exact optional_mark. Qed.

Theorem C02_property_key :
  forall is_alnum is_numeric R inl args ra opt fl p,
    prop_of is_alnum is_numeric R inl args ra opt fl = Ok p ->
    p_key (fst p) = field_key ra fl.
Proof. exact property_key. Qed.

Print Assumptions C02_union_arms_are_the_live_variants.
Print Assumptions C02_tuple_length.
Print Assumptions C02_empty_shapes.
Print Assumptions C02_empty_enum_is_never.
Print Assumptions C02_optional_mark.
Print Assumptions C02_property_key.

(* ---- acceptance -------------------------------------------------------------------------------------
   For every environment of derived definitions inside the decidable fragment de_envb (Proofs/De_proofs.v: structs and enums
   of every shape — named, tuple, newtype, unit — generic or not, rename / rename_all / rename_all_fields / skip,
   struct-level tag, all four enum representations incl. newtype variants of an internally tagged enum around a struct,
   recursion, `inline` fields of closed type (in generic definitions too), `optional` / `optional = nullable` on Option
   fields and `optional_fields` on the container, `flatten` of a struct with named fields (no tag, no flattened field of its own) into any
   definition (the flattened type closed); no type / as overrides, no flatten of enums or maps; arrays of at most ARRAY_TUPLE_LIMIT
   elements, so that the binding is the tuple of exactly that length; a tag key is no field key; the variants of a tagged
   enum have distinct names on the wire; every definition has a declaration and declaration names are distinct), for
   EVERY closed type expression over it, EVERY JSON value whose objects have distinct keys, and every evaluation depth f:
   a member of the TypeScript type TS::name() reports, read against the declarations ts-rs generates, is NOT REJECTED by
   serde's Deserialize (Spec/SerdeDe.v, tied to the real serde_json::from_str on every run) at any recursion depth
   >= F * (gf + 1), F >= f (one unit per definition entered; at most gf definitions are entered through `inline` between
   two reference unfoldings of the membership): it is read as a value, or it is one of the leaf misfits the property sets
   aside (DMisfit: a number outside the Rust integer type, a `char` string of another length).  In particular a property the
   binding marks optional may be absent only where serde reads an absent field (an Option), and a required one is read. *)
From TsRs Require Import Spec.TsSem Spec.Serde Spec.SerdeDe Proofs.Sem_base_proofs Proofs.Sem_derive_proofs Proofs.De_proofs Props.C01.

Theorem C02_members_are_accepted :
  forall is_upper is_alnum is_numeric R gf,
    de_envb is_upper is_alnum is_numeric R gf = true ->
    forall F n t a j f,
      (F * S gf <= n)%nat -> (f <= F)%nat -> mono_ty R t = true -> small_arr t = true -> name_of R t = Ok a ->
      memberb (env_of is_upper is_alnum is_numeric R gf) f a j = true -> wf_json j = true ->
      de is_upper R n t j <> DReject.
Proof. exact member_accepted. Qed.

(* the same for the type TS::inline() reports (at every generator fuel g at which inline() is defined) *)
Theorem C02_members_of_inline_are_accepted :
  forall is_upper is_alnum is_numeric R gf,
    de_envb is_upper is_alnum is_numeric R gf = true ->
    forall F g n t a j f,
      (F * S gf + g <= n)%nat -> (f <= F)%nat -> mono_ty R t = true -> small_arr t = true ->
      lib_inline R (gen is_upper is_alnum is_numeric R g) t = Ok a ->
      memberb (env_of is_upper is_alnum is_numeric R gf) f a j = true -> wf_json j = true ->
      de is_upper R n t j <> DReject.
Proof. exact member_accepted_inline. Qed.

(* ... and whatever value it is read as, what serde writes for it inhabits the type again (C01, for every value) *)
Theorem C02_reserialized_inhabits :
  forall is_upper is_alnum is_numeric R gf,
    plain_envb is_upper is_alnum is_numeric R gf = true ->
    forall n m t j v j' a,
      mono_ty R t = true -> name_of R t = Ok a ->
      de is_upper R n t j = DOk v -> ser is_upper R m t v = Some j' ->
      exists f0, forall f, (f0 <= f)%nat -> memberb (env_of is_upper is_alnum is_numeric R gf) f a j' = true.
Proof. intros is_upper is_alnum is_numeric R gf Henv n m t j v j' a Hm Ha _ Hs. eapply derive_layer_member; eassumption. Qed.

(* the hypotheses are inhabited: the generic definitions of C01_generic (struct Pair<A, B = A>, adjacently tagged enum Opt<T>),
   the instantiation Pair<i32, Opt<String>>, a JSON value that is a member of its type and is read as a value *)
Example C02_acceptance_nonvacuous :
  let R := C01_generic.R in
  let j := JObj [(lit "first", JInt 5); (lit "second", JArr [JObj [(lit "t", JStr (lit "Nothing"))];
                                                              JObj [(lit "t", JStr (lit "Just")); (lit "c", JStr (lit "x"))]])] in
  de_envb C01_example.up C01_example.al is_ascii_digit R 10 = true /\
  mono_ty R C01_generic.t = true /\ small_arr C01_generic.t = true /\ wf_json j = true /\
  exists a, name_of R C01_generic.t = Ok a /\
    memberb (env_of C01_example.up C01_example.al is_ascii_digit R 10) 12 a j = true /\
    de C01_example.up R 132 C01_generic.t j = DOk (VStruct [VInt 5; VSeq [VVariant 0 []; VVariant 1 [VStr (lit "x")]]]) /\
    (* a near miss that is not a member, and is rejected: the content of `Just` is missing *)
    memberb (env_of C01_example.up C01_example.al is_ascii_digit R 10) 12 a
      (JObj [(lit "first", JInt 5); (lit "second", JArr [JObj [(lit "t", JStr (lit "Just"))]])]) = false.
Proof.
  cbv zeta. split; [vm_compute; reflexivity|]. split; [vm_compute; reflexivity|]. split; [vm_compute; reflexivity|].
  split; [vm_compute; reflexivity|].
  eexists. split; [vm_compute; reflexivity|]. split; [vm_compute; reflexivity|]. split; vm_compute; reflexivity.
Qed.

(* an `inline` field: Host { #[ts(inline)] s: Vec<Shape> } over the recursive Node / internally tagged Shape of C01_example *)
Example C02_acceptance_inline_nonvacuous :
  let R := C01_example.R in
  let t := RNamed (lit "Host") [] in
  let node i sh := JObj [(lit "nodeId", JInt i); (lit "kids", JArr []); (lit "shape", sh)] in
  let j := JObj [(lit "s", JArr [JObj [(lit "kind", JStr (lit "Dot"))];
                                JObj [(lit "kind", JStr (lit "Box")); (lit "w", JInt 7); (lit "inner", node 4%Z JNull)]])] in
  de_envb C01_example.up C01_example.al is_ascii_digit R 10 = true /\
  mono_ty R t = true /\ small_arr t = true /\ wf_json j = true /\
  exists a, name_of R t = Ok a /\
    memberb (env_of C01_example.up C01_example.al is_ascii_digit R 10) 12 a j = true /\
    de C01_example.up R 132 t j = DOk (VStruct [VSeq [VVariant 0 []; VVariant 1 [VInt 7; C01_example.leafv 4 VNone]]]).
Proof.
  cbv zeta. split; [vm_compute; reflexivity|]. split; [vm_compute; reflexivity|]. split; [vm_compute; reflexivity|].
  split; [vm_compute; reflexivity|].
  eexists. split; [vm_compute; reflexivity|]. split; vm_compute; reflexivity.
Qed.

(* optional properties: #[ts(optional_fields)] struct Opt { a: Option<i32>, #[ts(optional = nullable)] b: Option<bool>, c: i32 }
   — `{ a?: number, b?: boolean | null, c: number, }`: a and b may be absent, c may not *)
Module C02_opt.
Import C01_example.
Definition fopt (n : String.string) (t : rty) (o : optional) : field :=
  {| f_ident := lit n; f_ty := t; f_serde_ty := t; f_rename := None; f_skip := false; f_inline := false;
     f_flatten := false; f_optional := o; f_type := None; f_docs := []; f_skip_none := true |}.
Definition R : env :=
  [(lit "Opt", DStruct {| c_ident := lit "Opt"; c_rename := None; c_rename_all := None; c_tag := None; c_optional_fields := Optional false;
                          c_docs := []; c_export_to := None; c_type := None; c_as := None; c_params := [] |}
      (SNamed [fopt "a" (ROption i32) NotOptional; fopt "b" (ROption (RLeaf LBool)) (Optional true); fopt "c" i32 NotOptional]))].
Definition t : rty := RNamed (lit "Opt") [].
End C02_opt.

Example C02_acceptance_optional_nonvacuous :
  let R := C02_opt.R in
  let E := env_of C01_example.up C01_example.al is_ascii_digit R 10 in
  de_envb C01_example.up C01_example.al is_ascii_digit R 10 = true /\
  exists a d, name_of R C02_opt.t = Ok a /\ Rust.lookup R (lit "Opt") = Some d /\
    decl_text C01_example.up C01_example.al is_ascii_digit R 10 d = Ok (lit "type Opt = { a?: number, b?: boolean | null, c: number, };") /\
    memberb E 12 a (JObj [(lit "c", JInt 1)]) = true /\
    de C01_example.up R 132 C02_opt.t (JObj [(lit "c", JInt 1)]) = DOk (VStruct [VNone; VNone; VInt 1]) /\
    memberb E 12 a (JObj [(lit "a", JInt 2); (lit "b", JNull); (lit "c", JInt 1)]) = true /\
    de C01_example.up R 132 C02_opt.t (JObj [(lit "a", JInt 2); (lit "b", JNull); (lit "c", JInt 1)]) = DOk (VStruct [VSome (VInt 2); VNone; VInt 1]) /\
    (* the required property may not be absent: not a member, and rejected *)
    memberb E 12 a (JObj [(lit "a", JInt 2)]) = false /\
    de C01_example.up R 132 C02_opt.t (JObj [(lit "a", JInt 2)]) = DReject.
Proof.
  cbv zeta. split; [vm_compute; reflexivity|]. eexists; eexists.
  split; [vm_compute; reflexivity|]. split; [vm_compute; reflexivity|]. split; [vm_compute; reflexivity|].
  split; [vm_compute; reflexivity|]. split; [vm_compute; reflexivity|]. split; [vm_compute; reflexivity|].
  split; [vm_compute; reflexivity|]. split; vm_compute; reflexivity.
Qed.

(* newtype variants of an internally tagged enum around structs (C01_newtype): `{ "type": "Text" } & TextMsg` *)
Example C02_acceptance_newtype_nonvacuous :
  let R := C01_newtype.R in
  let E := env_of C01_example.up C01_example.al is_ascii_digit R 10 in
  let j := JObj [(lit "type", JStr (lit "Text")); (lit "body", JStr (lit "hi")); (lit "n", JInt 2)] in
  de_envb C01_example.up C01_example.al is_ascii_digit R 10 = true /\
  exists a, name_of R C01_newtype.t = Ok a /\
    memberb E 12 a j = true /\
    de C01_example.up R 132 C01_newtype.t j = DOk (VVariant 1 [VStruct [VStr (lit "hi"); VInt 2]]) /\
    (* a required field of the content missing: not a member, and rejected *)
    memberb E 12 a (JObj [(lit "type", JStr (lit "Text")); (lit "body", JStr (lit "hi"))]) = false /\
    de C01_example.up R 132 C01_newtype.t (JObj [(lit "type", JStr (lit "Text")); (lit "body", JStr (lit "hi"))]) = DReject.
Proof.
  cbv zeta. split; [vm_compute; reflexivity|]. eexists.
  split; [vm_compute; reflexivity|]. split; [vm_compute; reflexivity|]. split; [vm_compute; reflexivity|].
  split; vm_compute; reflexivity.
Qed.

(* flatten (C01_flatten): Doc { doc_title, #[serde(flatten)] meta: Meta { id, ver }, pages } under camelCase *)
Example C02_acceptance_flatten_nonvacuous :
  let R := C01_flatten.R in
  let E := env_of C01_example.up C01_example.al is_ascii_digit R 10 in
  let j := JObj [(lit "docTitle", JStr (lit "t")); (lit "id", JInt 1); (lit "ver", JInt 2); (lit "pages", JInt 9)] in
  de_envb C01_example.up C01_example.al is_ascii_digit R 10 = true /\
  exists a, name_of R C01_flatten.t = Ok a /\
    memberb E 12 a j = true /\
    de C01_example.up R 132 C01_flatten.t j = DOk (VStruct [VStr (lit "t"); VStruct [VInt 1; VInt 2]; VInt 9]) /\
    (* a field of the flattened struct missing: not a member, and rejected *)
    memberb E 12 a (JObj [(lit "docTitle", JStr (lit "t")); (lit "id", JInt 1); (lit "pages", JInt 9)]) = false /\
    de C01_example.up R 132 C01_flatten.t (JObj [(lit "docTitle", JStr (lit "t")); (lit "id", JInt 1); (lit "pages", JInt 9)]) = DReject.
Proof.
  cbv zeta. split; [vm_compute; reflexivity|]. eexists.
  split; [vm_compute; reflexivity|]. split; [vm_compute; reflexivity|]. split; [vm_compute; reflexivity|].
  split; vm_compute; reflexivity.
Qed.

Print Assumptions C02_members_are_accepted.
Print Assumptions C02_members_of_inline_are_accepted.
Print Assumptions C02_reserialized_inhabits.
