(* C02 — every inhabitant of the generated TypeScript type deserializes.  Statements only.
   What is PROVED here is the structural half of the property ("tag literals, property names,
   required-ness of properties, tuple lengths and union arms of the binding correspond exactly to"
   the Rust item), for every definition and all type arguments; acceptance by serde's Deserialize
   is decided on every run by the real serde_json::from_str on inhabitants enumerated by Coq. *)
From TsRs Require Import Base.Str Base.Outcome Gen.Tables Model.Case Model.TsAst Model.Rust Model.Docs Model.Gen Spec.TsFree Proofs.Gen_shape_proofs.
From Coq Require Import List.
Import ListNotations.

Theorem C02_union_arms_are_the_live_variants :
  forall is_upper is_alnum is_numeric R inl flt a tg raf vs args t fl,
    vs <> [] -> c_type a = None -> c_as a = None ->
    def_body is_upper is_alnum is_numeric R inl flt (DEnum a tg raf vs) args = Ok (t, fl) ->
    exists arms, Forall2 (fun v x => variant_gen is_upper is_alnum is_numeric R inl flt args a tg raf v = Ok x) (live_variants vs) arms /\
      match arms with
      | [] => t = TPrim (lit "never") /\ fl = None
      | _ => t = TUnion arms /\ fl = Some (TParen (TUnion arms))
      end.
Proof. exact enum_arms. Qed.

Theorem C02_tuple_length :
  forall is_alnum is_numeric R inl flt args ra opt tag f1 f2 fs r,
    shape_gen is_alnum is_numeric R inl flt args ra opt tag (STuple (f1 :: f2 :: fs)) = Ok r ->
    exists items, r = (TTuple items, None) /\ length items = length (live (f1 :: f2 :: fs)).
Proof. exact tuple_length. Qed.

Theorem C02_empty_shapes :
  forall is_alnum is_numeric R inl flt args ra opt,
    shape_gen is_alnum is_numeric R inl flt args ra opt None SUnit = Ok (TPrim (lit "null"), None) /\
    shape_gen is_alnum is_numeric R inl flt args ra opt None (STuple []) = Ok (TNeverArr, None) /\
    shape_gen is_alnum is_numeric R inl flt args ra opt None (SNamed []) = Ok (TRecordNever, None).
Proof. exact empty_shapes. Qed.

Theorem C02_empty_enum_is_never :
  forall is_upper is_alnum is_numeric R inl flt a tg raf args,
    c_type a = None -> c_as a = None ->
    def_body is_upper is_alnum is_numeric R inl flt (DEnum a tg raf []) args = Ok (TPrim (lit "never"), None).
Proof. exact empty_enum_never. Qed.

Theorem C02_optional_mark :
  forall is_alnum is_numeric R inl args ra opt fl p,
    prop_of is_alnum is_numeric R inl args ra opt fl = Ok p ->
    p_optional (fst p) = true ->
    f_type fl = None /\
    (f_optional fl <> NotOptional \/ (opt <> NotOptional /\ is_option (rsubst args (f_ty fl)) = true)).
Proof. exact optional_mark. Qed.

Theorem C02_property_key :
  forall is_alnum is_numeric R inl args ra opt fl p,
    prop_of is_alnum is_numeric R inl args ra opt fl = Ok p ->
    p_key (fst p) = field_key ra fl.
Proof. exact property_key. Qed.

Print Assumptions C02_union_arms_are_the_live_variants.
Print Assumptions C02_tuple_length.
Print Assumptions C02_empty_shapes.
Print Assumptions C02_empty_enum_is_never.
Print Assumptions C02_optional_mark.
Print Assumptions C02_property_key.
