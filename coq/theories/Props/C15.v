(* C15 — doc comments are carried over, contained, and never alter the type.  Statements only. *)
From TsRs Require Import Base.Str Base.Outcome Gen.Tables Model.Case Model.TsAst Model.Rust Model.Docs Model.Gen Proofs.Docs_proofs.
From Coq Require Import List.
Import ListNotations.

(* for EVERY list of doc strings (any characters, any number of lines): the rendered block contains
   the comment terminator `*/` exactly once … *)
Theorem C15_contained :
  forall ls, ls <> [] -> closes (parse_docs ls) = 1%nat.
Proof. exact parse_docs_one_close. Qed.

(* … namely at its end, and it opens with `/**` *)
Theorem C15_block_shape :
  forall ls, ls <> [] ->
    starts_with (lit "/**") (parse_docs ls) = true /\ exists body, parse_docs ls = body ++ lit "*/" ++ [nl].
Proof. exact parse_docs_shape. Qed.

(* the block never contains an empty line (a newline directly followed by a newline), whatever the doc strings hold:
   where blocks of one file are separated by an empty line (C05), documentation and declaration stay one block *)
Theorem C15_no_empty_line :
  forall ls, has_blank (parse_docs ls) = false.
Proof. exact parse_docs_no_blank. Qed.

Theorem C15_no_docs_no_comment : parse_docs [] = [].
Proof. exact parse_docs_nil. Qed.

(* adding, removing or changing the documentation of a field changes the property's comment only *)
Theorem C15_field_docs_do_not_change_the_type :
  forall is_alnum is_numeric R inl args ra opt fl ds p,
    prop_of is_alnum is_numeric R inl args ra opt fl = Ok p ->
    exists p', prop_of is_alnum is_numeric R inl args ra opt (field_with_docs fl ds) = Ok p' /\
               snd p' = snd p /\ p_key (fst p') = p_key (fst p) /\ p_text (fst p') = p_text (fst p) /\
               p_optional (fst p') = p_optional (fst p) /\ p_docs (fst p') = parse_docs ds.
Proof. exact field_docs_irrelevant. Qed.

(* … and of a type changes neither its inline nor its flattened form (the docs only reach DOCS) *)
Theorem C15_type_docs_do_not_change_the_type :
  forall is_upper is_alnum is_numeric R inl flt d ds args,
    def_body is_upper is_alnum is_numeric R inl flt (def_with_docs d ds) args =
    def_body is_upper is_alnum is_numeric R inl flt d args.
Proof. exact type_docs_irrelevant. Qed.

(* the escaping at work on the inputs that used to break out of the comment *)
Example C15_empty_lines_filled :
  parse_docs [nl :: nl :: lit "x"] = lit "/**" ++ [nl] ++ lit " *" ++ [nl] ++ lit "x*/" ++ [nl] /\
  parse_docs [lit "a" ++ [nl]; nl :: lit "b"] = lit "/**" ++ [nl] ++ lit " *a" ++ [nl] ++ lit " *" ++ [nl] ++ lit " *" ++ [nl] ++ lit "b" ++ [nl] ++ lit " */" ++ [nl].
Proof. split; reflexivity. Qed.

Example C15_escapes :
  parse_docs [lit " a glob **/*.rs here"] = lit "/**" ++ [nl] ++ lit " * a glob **\/*.rs here" ++ [nl] ++ lit " */" ++ [nl] /\
  parse_docs [lit "/etc/passwd"] = lit "/**" ++ [nl] ++ lit " * /etc/passwd" ++ [nl] ++ lit " */" ++ [nl].
Proof. split; reflexivity. Qed.

Print Assumptions C15_contained.
Print Assumptions C15_block_shape.
Print Assumptions C15_no_empty_line.
Print Assumptions C15_no_docs_no_comment.
Print Assumptions C15_field_docs_do_not_change_the_type.
Print Assumptions C15_type_docs_do_not_change_the_type.
