(* C17 — placeholder until Proofs/ExportSM_proofs.v lands *)
From TsRs Require Import Base.Str Base.Outcome Model.ExportSM.
Theorem C17_placeholder : forall fs, create_dir_all fs [] = Ok fs.
Proof. reflexivity. Qed.
