(* C17 — export failures are returned as errors and do not poison later exports.  Statements only; proofs in
   Proofs/ExportSM_proofs.v over Model/ExportSM.v (outcomes Ok / Err / Panic; the file system fails exactly where the
   property lists obstacles). *)
From TsRs Require Import Base.Str Base.Outcome Gen.Tables Model.Path Model.Merge Model.MergeSpec Model.Imports Model.ExportSM
  Spec.PathOracle Proofs.Path_proofs Proofs.ExportSM_proofs.
From Coq Require Import List.
Import ListNotations.

(* a failed write is not recorded as done: export_and_merge returning an error leaves the WHOLE state (files, registry,
   poison flag) exactly as it was — so repeating the call once the obstacle is gone is repeating it from the state in which
   the failure never happened *)
Theorem C17_failed_write_changes_nothing :
  forall st p name text st' e, export_and_merge st p name text = (st', Err e) -> st' = st.
Proof. exact eam_err. Qed.

(* a failed T::export(): nothing recorded, the poison flag as it was, every regular file as it was (directories created
   on the way stay; a later successful export creates them all the same) *)
Theorem C17_failed_export_is_not_recorded :
  forall cfg U st i st' e, names_ok (c_cwd cfg) ->
    step cfg U st (Export i) = (st', Err e) ->
    s_reg st' = s_reg st /\ s_poisoned st' = s_poisoned st /\
    (forall q c, fs_get (s_fs st') q = Some (File c) <-> fs_get (s_fs st) q = Some (File c)).
Proof. intros cfg U st i st' e Hc. exact (export_failed_frame cfg U Hc st i st' e). Qed.

(* a failed export_all / export_all_to, wherever in the walk it fails: every other file untouched — regular files and
   registry entries change only at target paths of types reachable from the root — and no recorded name is lost *)
Theorem C17_failed_export_all_touches_nothing_else :
  forall cfg U st i dir st' r, names_ok (c_cwd cfg) ->
    export_all_into cfg U st i dir = (st', r) ->
    reg_le (s_reg st) (s_reg st') /\
    (forall q, ~ (exists j, reach U i j /\ target cfg U j dir = Some q) ->
       forall c, fs_get (s_fs st') q = Some (File c) <-> fs_get (s_fs st) q = Some (File c)).
Proof. intros cfg U st i dir st' r Hc H. destruct (export_all_frame cfg U Hc st i dir st' r H) as (A & B & _). split; [exact A | exact B]. Qed.

(* a failed T::export() contributes nothing to any file: what every file is made of (its view as C05's single-file model:
   recorded names + content) is exactly what it was *)
Theorem C17_failed_export_contributes_nothing :
  forall cfg U st i st' e, names_ok (c_cwd cfg) ->
    step cfg U st (Export i) = (st', Err e) -> forall q, view st' q = view st q.
Proof. intros cfg U st i st' e Hc. exact (failed_export_views cfg U Hc st i st' e). Qed.

(* THE retry statement: for every history of exports — failing or not, retried or not — interleaved with obstacles being placed
   and removed anywhere that is not at or above an already recorded file: every file of the final state is the result of a sequence of
   single-file exports, each the contribution of a type some call of the history exports to that path.  Failed calls and
   obstacles contribute nothing, so (C06_history_independent / C05) the final files are those of the history in which the
   failures never happened *)
Theorem C17_obstacles_and_failures_leave_no_trace :
  forall cfg U h st st' rs, names_ok (c_cwd cfg) ->
    clear_history cfg U st h -> run cfg U st h = (st', rs) -> Inv st ->
    Inv st' /\ forall q, exists l, run_raw (view st q) l = Ok (view st' q) /\
                               Forall (fun it => exists j, (exists o, In o h /\ op_targets cfg U o j q) /\ contribution cfg U j it) l.
Proof. intros cfg U h st st' rs Hc Hh H. exact (run_refines_with_obstacles cfg U Hc h st st' rs Hh H). Qed.

(* the retry itself: when a type is exported to a path for the first time in the process — directly, or after any number of
   failed attempts with obstacles placed and removed (which record nothing: above) — the file holds exactly its export text
   and the registry exactly its name; so the retried export and the export that never failed leave the same file *)
Theorem C17_retry_writes_what_the_first_attempt_would_have :
  forall cfg U i path p st1 st1' st2 st2',
    target_of cfg path = Some p ->
    reg_get (s_reg st1) p = None -> export_to cfg U st1 i path = (st1', Ok tt) ->
    reg_get (s_reg st2) p = None -> export_to cfg U st2 i path = (st2', Ok tt) ->
    fs_get (s_fs st1') p = fs_get (s_fs st2') p /\ reg_get (s_reg st1') p = reg_get (s_reg st2') p.
Proof.
  intros cfg U i path p st1 st1' st2 st2' Ht R1 H1 R2 H2.
  destruct (export_to_first_touch cfg U st1 i path p st1' Ht R1 H1) as (b1 & E1 & F1 & G1).
  destruct (export_to_first_touch cfg U st2 i path p st2' Ht R2 H2) as (b2 & E2 & F2 & G2).
  rewrite E1 in E2. inversion E2; subst b2. rewrite F1, F2, G1, G2. split; reflexivity.
Qed.

(* the four obstacles are errors, never panics, with the state as it was: *)
(* .. the type is not exportable (every entry point) *)
Theorem C17_not_exportable_is_an_error :
  forall cfg U st i dir, t_out (tget U i) = None ->
    step cfg U st (Export i) = (st, Err err_cannot_export) /\ step cfg U st (ExportAll i) = (st, Err err_cannot_export) /\
    step cfg U st (ExportAllTo i dir) = (st, Err err_cannot_export).
Proof. exact not_exportable_is_error. Qed.

(* .. the target path climbs above the file system root (C08_absolute_above_root says when `absolute` errs) *)
Theorem C17_above_root_is_an_error :
  forall cfg U st i op e, t_out (tget U i) = Some op ->
    absolute (c_cwd cfg) (path_join (default_out_dir cfg) op) = Err e ->
    step cfg U st (Export i) = (st, Err err_cannot_export) /\ step cfg U st (ExportAll i) = (st, Err err_cannot_export).
Proof. exact above_root_is_error. Qed.

(* .. the target itself is a directory *)
Theorem C17_target_is_a_directory_is_an_error :
  forall cfg U st i path cs buffer, absolute (c_cwd cfg) path = Ok cs ->
    export_to_string (c_esm cfg) (c_cwd cfg) U i (default_out_dir cfg) = Ok buffer ->
    s_poisoned st = false -> reg_get (s_reg st) (names_of_abs cs) = None ->
    fs_lookup (s_fs st) (names_of_abs cs) = Some Dir ->
    exists st' e, export_to cfg U st i path = (st', Err e) /\
                  s_reg st' = s_reg st /\ s_poisoned st' = s_poisoned st /\
                  (forall q c, fs_get (s_fs st') q = Some (File c) <-> fs_get (s_fs st) q = Some (File c)).
Proof. exact target_is_directory. Qed.

(* .. a component of the path is a regular file *)
Theorem C17_path_component_is_a_file_is_an_error :
  forall cfg U st i path cs buffer d pre n rest c, absolute (c_cwd cfg) path = Ok cs ->
    export_to_string (c_esm cfg) (c_cwd cfg) U i (default_out_dir cfg) = Ok buffer ->
    parent_of (names_of_abs cs) = Some d -> d = pre ++ n :: rest -> fs_lookup (s_fs st) (pre ++ [n]) = Some (File c) ->
    exists e, export_to cfg U st i path = (st, Err e).
Proof. exact parent_is_file. Qed.

(* non-vacuity, and the retry: the target is a directory -> Err; the obstacle is removed -> the retry succeeds and the
   tree equals the tree of the run in which the failure never happened; a regular file in the way likewise *)
Module C17_ex.
Local Open Scope string_scope.
Definition l (s : String.string) : str := lit s.
Definition A : tinfo := {| t_ident := l "A"; t_out := Some (l "sub/A.ts"); t_decl := l "export type A = number;"; t_visits := []; t_wg := 0%nat |}.
Definition U : universe := [A].
Definition cfg : config := {| c_esm := false; c_cwd := [l "w"]; c_env := None |}.
Definition pA : apath := [l "w"; l "bindings"; l "sub"; l "A.ts"].
Definition go (h : list op) := run cfg U (init_state []) h.
End C17_ex.
Example C17_nonvacuous :
  snd (C17_ex.go [MkDir C17_ex.pA; Export 0%nat]) = [Ok tt; Err io_error] /\
  snd (C17_ex.go [MkDir C17_ex.pA; Export 0%nat; Remove C17_ex.pA; Export 0%nat]) = [Ok tt; Err io_error; Ok tt; Ok tt] /\
  files_of (s_fs (fst (C17_ex.go [MkDir C17_ex.pA; Export 0%nat; Remove C17_ex.pA; Export 0%nat]))) = files_of (s_fs (fst (C17_ex.go [Export 0%nat]))) /\
  snd (C17_ex.go [MkFile (map lit ["w"; "bindings"]%string) []; ExportAll 0%nat]) = [Ok tt; Err io_error] /\
  files_of (s_fs (fst (C17_ex.go [MkFile (map lit ["w"; "bindings"]%string) []; ExportAll 0%nat; Remove (map lit ["w"; "bindings"]%string); ExportAll 0%nat]))) =
    files_of (s_fs (fst (C17_ex.go [ExportAll 0%nat]))).
Proof. repeat split; vm_compute; reflexivity. Qed.

Print Assumptions C17_failed_write_changes_nothing.
Print Assumptions C17_failed_export_is_not_recorded.
Print Assumptions C17_failed_export_all_touches_nothing_else.
Print Assumptions C17_failed_export_contributes_nothing.
Print Assumptions C17_obstacles_and_failures_leave_no_trace.
Print Assumptions C17_retry_writes_what_the_first_attempt_would_have.
Print Assumptions C17_not_exportable_is_an_error.
Print Assumptions C17_above_root_is_an_error.
Print Assumptions C17_target_is_a_directory_is_an_error.
Print Assumptions C17_path_component_is_a_file_is_an_error.
