(* C01 — serialized values inhabit the generated TypeScript type.  Statements only. *)
From TsRs Require Import Base.Str Base.Outcome Gen.Tables Model.Case Model.TsAst Model.Rust Model.Docs Model.Gen Spec.TsFree Spec.TsSem Spec.Serde Proofs.Sem_lib_proofs Proofs.Sem_base_proofs Proofs.Sem_derive_proofs.
From Coq Require Import List.
Import ListNotations.

(* Library layer (the built-in impls of ts-rs/src/lib.rs), for type expressions of ANY nesting
   depth, arrays of every length and every value: what serde_json emits for a value of the type is a
   member of the TypeScript type TS::name() reports.  `sd`/`E` (what derived types do) are arbitrary:
   a library type expression contains none. *)
Theorem C01_library_layer :
  forall R E sd t v j a f,
    lib_ok t = true -> ser_ty R sd t v = Some j -> name_of R t = Ok a -> (rdepth t < f)%nat ->
    memberb E f a j = true.
Proof. exact lib_ser_member. Qed.

(* the hypotheses are inhabited by a nested type and a non-trivial value *)
Example C01_library_nonvacuous :
  let t := RVec (RTuple [ROption (RLeaf (LInt true 0%Z 18446744073709551615%Z));
                         RMap (RLeaf LString) (RArray 2%nat (RLeaf LBool));
                         RResult (RLeaf LChar) (RRange (RLeaf (LInt false 0%Z 255%Z)))]) in
  let v := VSeq [VSeq [VSome (VInt 18446744073709551615%Z);
                       VMap [(VStr (lit "k"%string), VSeq [VBool true; VBool false])];
                       VVariant 1%nat [VStruct [VInt 1%Z; VInt 7%Z]]]] in
  lib_ok t = true /\
  exists j a, ser_ty [] (fun _ _ _ => None) t v = Some j /\ name_of [] t = Ok a /\
              print a = lit "Array<[bigint | null, { [key in string]?: [boolean, boolean] }, { Ok : string } | { Err : { start: number, end: number, } }]>"%string /\
              json_text j = lit "[[18446744073709551615,{""k"":[true,false]},{""Err"":{""start"":1,""end"":7}}]]"%string.
Proof. split; [reflexivity|]. eexists; eexists. repeat split; vm_compute; reflexivity. Qed.

Print Assumptions C01_library_layer.

(* Derive layer.  For every environment of derived definitions inside the decidable `plain`
   fragment (plain_envb: structs and enums of every shape — named, tuple, newtype, unit — GENERIC over
   any number of type parameters or not, with rename / rename_all / rename_all_fields / skip /
   struct-level tag, all four enum representations incl. newtype variants of an internally tagged enum around a struct
   (`{ "tag": "Name" } & Struct`), fields of any library type expression over type
   parameters and references to (instantiations of) other definitions, recursion included, `inline`
   on fields of closed type (no type parameter of the definition in it: in generic definitions too), `optional` / `optional = nullable` on Option fields and `optional_fields`
   on the container where serde agrees with the `?` — a property whose type does not include null carries
   skip_serializing_if = "Option::is_none", and only such a field may be left out; no type / as overrides and no flatten of enums or maps, which
   the corpus correspondence covers instead; `flatten` of a struct with named fields (no tag, no flattened field of its own) into any
   definition (the flattened type closed), at any position among the fields, the keys of host and flattened structs distinct), for EVERY closed type expression — every instantiation
   of the generic definitions at closed types —, EVERY value and every serde recursion depth: what serde_json emits is, from some evaluation depth on, a member of the TypeScript type
   TS::name() reports, read against the declarations ts-rs generates for that environment. *)
Theorem C01_derive_layer :
  forall is_upper is_alnum is_numeric R gf,
    plain_envb is_upper is_alnum is_numeric R gf = true ->
    forall n t v j a,
      mono_ty R t = true -> ser is_upper R n t v = Some j -> name_of R t = Ok a ->
      exists f0, forall f, (f0 <= f)%nat -> memberb (env_of is_upper is_alnum is_numeric R gf) f a j = true.
Proof. exact derive_layer_member. Qed.

(* and of the type TS::inline() reports, at every generator fuel at which inline() is defined *)
Theorem C01_derive_layer_inline :
  forall is_upper is_alnum is_numeric R gf,
    plain_envb is_upper is_alnum is_numeric R gf = true ->
    forall n g t v j a,
      mono_ty R t = true -> ser is_upper R n t v = Some j -> lib_inline R (gen is_upper is_alnum is_numeric R g) t = Ok a ->
      exists f0, forall f, (f0 <= f)%nat -> memberb (env_of is_upper is_alnum is_numeric R gf) f a j = true.
Proof. exact derive_layer_member_inline. Qed.

Module C01_example.
Definition fld (n : String.string) (t : rty) : field :=
  {| f_ident := lit n; f_ty := t; f_serde_ty := t; f_rename := None; f_skip := false; f_inline := false;
     f_flatten := false; f_optional := NotOptional; f_type := None; f_docs := []; f_skip_none := false |}.
Definition cat (n : String.string) (ra : option rule) (tag : option str) : cattrs :=
  {| c_ident := lit n; c_rename := None; c_rename_all := ra; c_tag := tag; c_optional_fields := NotOptional;
     c_docs := []; c_export_to := None; c_type := None; c_as := None; c_params := [] |}.
Definition var (n : String.string) (s : shape) : variant :=
  {| v_ident := lit n; v_shape := s; v_rename := None; v_rename_all := None; v_skip := false;
     v_untagged := false; v_type := None; v_as := None |}.
Definition i32 := RLeaf (LInt false (-2147483648)%Z 2147483647%Z).
(* struct Node { node_id: i32, kids: Vec<Node>, shape: Option<Shape> }  with rename_all = camelCase
   #[serde(tag = "kind")] enum Shape { Dot, Box { w: i32, inner: Box<Node> } } *)
Definition R : env :=
  [(lit "Node", DStruct (cat "Node" (Some Camel) None)
      (SNamed [fld "node_id" i32; fld "kids" (RVec (RNamed (lit "Node") [])); fld "shape" (ROption (RNamed (lit "Shape") []))]));
   (lit "Shape", DEnum (cat "Shape" None None) (Internal (lit "kind")) None
      [var "Dot" SUnit; var "Box" (SNamed [fld "w" i32; {| f_ident := lit "inner"; f_ty := RWrap (RNamed (lit "Node") []); f_serde_ty := RWrap (RNamed (lit "Node") []);
                                                 f_rename := None; f_skip := false; f_inline := false; f_flatten := false;
                                                 f_optional := NotOptional; f_type := None; f_docs := []; f_skip_none := false |}])]);
   (lit "Host", DStruct (cat "Host" None None)
      (SNamed [{| f_ident := lit "s"; f_ty := RVec (RNamed (lit "Shape") []); f_serde_ty := RVec (RNamed (lit "Shape") []);
                  f_rename := None; f_skip := false; f_inline := true; f_flatten := false;
                  f_optional := NotOptional; f_type := None; f_docs := []; f_skip_none := false |}]))].
Definition leafv (i : Z) (sh : value) := VStruct [VInt i; VSeq []; sh].
Definition v : value :=
  VStruct [VInt 1; VSeq [leafv 2 VNone; leafv 3 (VSome (VVariant 0 []))];
           VSome (VVariant 1 [VInt 7; leafv 4 VNone])].
Definition up := is_ascii_upper.
Definition al (c : char) := is_ascii_upper c || is_ascii_lower c || is_ascii_digit c.
End C01_example.

(* the hypotheses are inhabited: a recursive struct and an internally tagged enum that refer to each
   other, a nested value; the model's JSON text is what serde_json prints for it *)
Example C01_derive_nonvacuous :
  let t := RNamed (lit "Node"%string) [] in
  plain_envb C01_example.up C01_example.al is_ascii_digit C01_example.R 10 = true /\ mono_ty C01_example.R t = true /\
  exists j a, ser C01_example.up C01_example.R 10 t C01_example.v = Some j /\ name_of C01_example.R t = Ok a /\
    print a = lit "Node"%string /\
    json_text j = lit "{""nodeId"":1,""kids"":[{""nodeId"":2,""kids"":[],""shape"":null},{""nodeId"":3,""kids"":[],""shape"":{""kind"":""Dot""}}],""shape"":{""kind"":""Box"",""w"":7,""inner"":{""nodeId"":4,""kids"":[],""shape"":null}}}"%string.
Proof. split; [vm_compute; reflexivity|]. split; [reflexivity|]. eexists; eexists. repeat split; vm_compute; reflexivity. Qed.

(* an inlined field: the host's declaration carries the union itself *)
Example C01_derive_inline_nonvacuous :
  let t := RNamed (lit "Host"%string) [] in
  exists j d, ser C01_example.up C01_example.R 10 t (VStruct [VSeq [VVariant 0 []; VVariant 1 [VInt 7; C01_example.leafv 4 VNone]]]) = Some j /\
    Rust.lookup C01_example.R (lit "Host"%string) = Some d /\
    decl_text C01_example.up C01_example.al is_ascii_digit C01_example.R 10 d
      = Ok (lit "type Host = { s: Array<{ ""kind"": ""Dot"" } | { ""kind"": ""Box"", w: number, inner: Node, }>, };"%string) /\
    json_text j = lit "{""s"":[{""kind"":""Dot""},{""kind"":""Box"",""w"":7,""inner"":{""nodeId"":4,""kids"":[],""shape"":null}}]}"%string.
Proof. eexists; eexists. repeat split; vm_compute; reflexivity. Qed.

(* generic definitions: struct Pair<A, B = A> { first: A, second: Vec<B> }, #[serde(tag = "t", content = "c")] enum Opt<T> { Nothing, Just(T), Both { l: T, r: Pair<T, bool> } };
   the instantiation Pair<i32, Opt<String>> and a value of it *)
Module C01_generic.
Import C01_example.
Definition catp (n : String.string) (ps : list (str * option rty)) : cattrs :=
  {| c_ident := lit n; c_rename := None; c_rename_all := None; c_tag := None; c_optional_fields := NotOptional;
     c_docs := []; c_export_to := None; c_type := None; c_as := None; c_params := ps |}.
Definition R : env :=
  [(lit "Pair", DStruct (catp "Pair" [(lit "A", None); (lit "B", Some (RParam 0))])
      (SNamed [fld "first" (RParam 0); fld "second" (RVec (RParam 1))]));
   (lit "Opt", DEnum (catp "Opt" [(lit "T", None)]) (Adjacent (lit "t") (lit "c")) None
      [var "Nothing" SUnit; var "Just" (STuple [fld "_0" (RParam 0)]);
       var "Both" (SNamed [fld "l" (RParam 0); fld "r" (RNamed (lit "Pair") [RParam 0; RLeaf LBool])])])].
Definition t : rty := RNamed (lit "Pair") [i32; RNamed (lit "Opt") [RLeaf LString]].
Definition v : value :=
  VStruct [VInt 5; VSeq [VVariant 0 []; VVariant 1 [VStr (lit "x")];
                         VVariant 2 [VStr (lit "y"); VStruct [VStr (lit "z"); VSeq [VBool true]]]]].
End C01_generic.

Example C01_derive_generic_nonvacuous :
  plain_envb C01_example.up C01_example.al is_ascii_digit C01_generic.R 10 = true /\ mono_ty C01_generic.R C01_generic.t = true /\
  exists j a d1 d2, ser C01_example.up C01_generic.R 10 C01_generic.t C01_generic.v = Some j /\ name_of C01_generic.R C01_generic.t = Ok a /\
    print a = lit "Pair<number, Opt<string>>"%string /\
    Rust.lookup C01_generic.R (lit "Pair"%string) = Some d1 /\ Rust.lookup C01_generic.R (lit "Opt"%string) = Some d2 /\
    decl_text C01_example.up C01_example.al is_ascii_digit C01_generic.R 10 d1 = Ok (lit "type Pair<A, B = A> = { first: A, second: Array<B>, };"%string) /\
    decl_text C01_example.up C01_example.al is_ascii_digit C01_generic.R 10 d2
      = Ok (lit "type Opt<T> = { ""t"": ""Nothing"" } | { ""t"": ""Just"", ""c"": T } | { ""t"": ""Both"", ""c"": { l: T, r: Pair<T, boolean>, } };"%string) /\
    json_text j = lit "{""first"":5,""second"":[{""t"":""Nothing""},{""t"":""Just"",""c"":""x""},{""t"":""Both"",""c"":{""l"":""y"",""r"":{""first"":""z"",""second"":[true]}}}]}"%string.
Proof. split; [vm_compute; reflexivity|]. split; [vm_compute; reflexivity|]. eexists; eexists; eexists; eexists. repeat split; vm_compute; reflexivity. Qed.

(* an inlined field inside a generic definition: struct Wrap<T> { #[ts(inline)] at: Pt, t: T } with struct Pt { x: i32 } *)
Module C01_inline_generic.
Import C01_example.
Definition finl (n : String.string) (t : rty) (i : bool) : field :=
  {| f_ident := lit n; f_ty := t; f_serde_ty := t; f_rename := None; f_skip := false; f_inline := i;
     f_flatten := false; f_optional := NotOptional; f_type := None; f_docs := []; f_skip_none := false |}.
Definition R : env :=
  [(lit "Pt", DStruct (C01_generic.catp "Pt" []) (SNamed [finl "x" i32 false]));
   (lit "Wrap", DStruct (C01_generic.catp "Wrap" [(lit "T", None)]) (SNamed [finl "at" (RNamed (lit "Pt") []) true; finl "t" (RParam 0) false]))].
Definition t : rty := RNamed (lit "Wrap") [RVec (RLeaf LBool)].
End C01_inline_generic.

Example C01_derive_inline_in_generic_nonvacuous :
  let R := C01_inline_generic.R in
  plain_envb C01_example.up C01_example.al is_ascii_digit R 10 = true /\ mono_ty R C01_inline_generic.t = true /\
  exists a d j, name_of R C01_inline_generic.t = Ok a /\ Rust.lookup R (lit "Wrap"%string) = Some d /\
    decl_text C01_example.up C01_example.al is_ascii_digit R 10 d = Ok (lit "type Wrap<T> = { at: { x: number, }, t: T, };"%string) /\
    ser C01_example.up R 10 C01_inline_generic.t (VStruct [VStruct [VInt 3]; VSeq [VBool true]]) = Some j /\
    json_text j = lit "{""at"":{""x"":3},""t"":[true]}"%string /\
    memberb (env_of C01_example.up C01_example.al is_ascii_digit R 10) 12 a j = true.
Proof.
  cbv zeta. split; [vm_compute; reflexivity|]. split; [vm_compute; reflexivity|]. eexists; eexists; eexists.
  repeat split; vm_compute; reflexivity.
Qed.

(* optional properties: #[ts(optional_fields)] struct Opt { #[serde(skip_serializing_if = "Option::is_none")] a: Option<i32>,
   #[ts(optional = nullable)] b: Option<bool>, c: i32 }: `a` is left out when None, `b` is written as null *)
Module C01_opt.
Import C01_example.
Definition fopt (n : String.string) (t : rty) (o : optional) (skip_none : bool) : field :=
  {| f_ident := lit n; f_ty := t; f_serde_ty := t; f_rename := None; f_skip := false; f_inline := false;
     f_flatten := false; f_optional := o; f_type := None; f_docs := []; f_skip_none := skip_none |}.
Definition R : env :=
  [(lit "Opt", DStruct {| c_ident := lit "Opt"; c_rename := None; c_rename_all := None; c_tag := None; c_optional_fields := Optional false;
                          c_docs := []; c_export_to := None; c_type := None; c_as := None; c_params := [] |}
      (SNamed [fopt "a" (ROption i32) NotOptional true; fopt "b" (ROption (RLeaf LBool)) (Optional true) false; fopt "c" i32 NotOptional false]))].
Definition t : rty := RNamed (lit "Opt") [].
End C01_opt.

Example C01_derive_optional_nonvacuous :
  let R := C01_opt.R in
  plain_envb C01_example.up C01_example.al is_ascii_digit R 10 = true /\ mono_ty R C01_opt.t = true /\
  exists a d j1 j2, name_of R C01_opt.t = Ok a /\ Rust.lookup R (lit "Opt"%string) = Some d /\
    decl_text C01_example.up C01_example.al is_ascii_digit R 10 d = Ok (lit "type Opt = { a?: number, b?: boolean | null, c: number, };"%string) /\
    ser C01_example.up R 10 C01_opt.t (VStruct [VNone; VNone; VInt 1]) = Some j1 /\ json_text j1 = lit "{""b"":null,""c"":1}"%string /\
    memberb (env_of C01_example.up C01_example.al is_ascii_digit R 10) 12 a j1 = true /\
    ser C01_example.up R 10 C01_opt.t (VStruct [VSome (VInt 2); VSome (VBool true); VInt 1]) = Some j2 /\ json_text j2 = lit "{""a"":2,""b"":true,""c"":1}"%string /\
    memberb (env_of C01_example.up C01_example.al is_ascii_digit R 10) 12 a j2 = true.
Proof.
  cbv zeta. split; [vm_compute; reflexivity|]. split; [vm_compute; reflexivity|]. eexists; eexists; eexists; eexists.
  split; [vm_compute; reflexivity|]. split; [vm_compute; reflexivity|]. split; [vm_compute; reflexivity|].
  split; [vm_compute; reflexivity|]. split; [vm_compute; reflexivity|]. split; [vm_compute; reflexivity|].
  split; [vm_compute; reflexivity|]. split; vm_compute; reflexivity.
Qed.

(* the commonest shape of an internally tagged enum: newtype variants around structs.
   struct TextMsg { body: String, n: i32 }   #[serde(tag = "type")] enum Msg { Ping, Text(TextMsg) } *)
Module C01_newtype.
Import C01_example.
Definition R : env :=
  [(lit "TextMsg", DStruct (cat "TextMsg" None None) (SNamed [fld "body" (RLeaf LString); fld "n" i32]));
   (lit "Msg", DEnum (cat "Msg" None None) (Internal (lit "type")) None
      [var "Ping" SUnit; var "Text" (STuple [fld "_0" (RNamed (lit "TextMsg") [])])])].
Definition t : rty := RNamed (lit "Msg") [].
End C01_newtype.

Example C01_derive_newtype_nonvacuous :
  let R := C01_newtype.R in
  plain_envb C01_example.up C01_example.al is_ascii_digit R 10 = true /\ mono_ty R C01_newtype.t = true /\
  exists a d j, name_of R C01_newtype.t = Ok a /\ Rust.lookup R (lit "Msg"%string) = Some d /\
    decl_text C01_example.up C01_example.al is_ascii_digit R 10 d = Ok (lit "type Msg = { ""type"": ""Ping"" } | { ""type"": ""Text"" } & TextMsg;"%string) /\
    ser C01_example.up R 10 C01_newtype.t (VVariant 1 [VStruct [VStr (lit "hi"%string); VInt 2]]) = Some j /\
    json_text j = lit "{""type"":""Text"",""body"":""hi"",""n"":2}"%string /\
    memberb (env_of C01_example.up C01_example.al is_ascii_digit R 10) 12 a j = true.
Proof.
  cbv zeta. split; [vm_compute; reflexivity|]. split; [vm_compute; reflexivity|]. eexists; eexists; eexists.
  split; [vm_compute; reflexivity|]. split; [vm_compute; reflexivity|]. split; [vm_compute; reflexivity|].
  split; [vm_compute; reflexivity|]. split; vm_compute; reflexivity.
Qed.

(* flatten: struct Meta { id: i32, ver: i32 }   #[serde(rename_all = "camelCase")] struct Doc { doc_title: String, #[serde(flatten)] meta: Meta, pages: i32 }
   — serde writes the flattened fields where the field stands, the declaration lists them after the own ones *)
Module C01_flatten.
Import C01_example.
Definition fl (n : String.string) (t : rty) : field :=
  {| f_ident := lit n; f_ty := t; f_serde_ty := t; f_rename := None; f_skip := false; f_inline := false;
     f_flatten := true; f_optional := NotOptional; f_type := None; f_docs := []; f_skip_none := false |}.
Definition R : env :=
  [(lit "Meta", DStruct (cat "Meta" None None) (SNamed [fld "id" i32; fld "ver" i32]));
   (lit "Doc", DStruct (cat "Doc" (Some Camel) None) (SNamed [fld "doc_title" (RLeaf LString); fl "meta" (RNamed (lit "Meta") []); fld "pages" i32]))].
Definition t : rty := RNamed (lit "Doc") [].
End C01_flatten.

Example C01_derive_flatten_nonvacuous :
  let R := C01_flatten.R in
  plain_envb C01_example.up C01_example.al is_ascii_digit R 10 = true /\ mono_ty R C01_flatten.t = true /\
  exists a d j, name_of R C01_flatten.t = Ok a /\ Rust.lookup R (lit "Doc"%string) = Some d /\
    decl_text C01_example.up C01_example.al is_ascii_digit R 10 d = Ok (lit "type Doc = { docTitle: string, pages: number, id: number, ver: number, };"%string) /\
    ser C01_example.up R 10 C01_flatten.t (VStruct [VStr (lit "t"%string); VStruct [VInt 1; VInt 2]; VInt 9]) = Some j /\
    json_text j = lit "{""docTitle"":""t"",""id"":1,""ver"":2,""pages"":9}"%string /\
    memberb (env_of C01_example.up C01_example.al is_ascii_digit R 10) 12 a j = true.
Proof.
  cbv zeta. split; [vm_compute; reflexivity|]. split; [vm_compute; reflexivity|]. eexists; eexists; eexists.
  split; [vm_compute; reflexivity|]. split; [vm_compute; reflexivity|]. split; [vm_compute; reflexivity|].
  split; [vm_compute; reflexivity|]. split; vm_compute; reflexivity.
Qed.

Print Assumptions C01_derive_layer.
Print Assumptions C01_derive_layer_inline.
