(* C01 — serialized values inhabit the generated TypeScript type.  Statements only. *)
From TsRs Require Import Base.Str Base.Outcome Gen.Tables Model.Case Model.TsAst Model.Rust Model.Docs Model.Gen Spec.TsFree Spec.TsSem Spec.Serde Proofs.Sem_lib_proofs.
From Coq Require Import List.
Import ListNotations.

(* Library layer (the built-in impls of ts-rs/src/lib.rs), for type expressions of ANY nesting
   depth, arrays of every length and every value: what serde_json emits for a value of the type is a
   member of the TypeScript type TS::name() reports.  `sd`/`E` (what derived types do) are arbitrary:
   a library type expression contains none. *)
Theorem C01_library_layer :
  forall R E sd t v j a f,
    lib_ok t = true -> ser_ty R sd t v = Some j -> name_of R t = Ok a -> (rdepth t < f)%nat ->
    memberb E f a j = true.
Proof. exact lib_ser_member. Qed.

(* the hypotheses are inhabited by a nested type and a non-trivial value *)
Example C01_library_nonvacuous :
  let t := RVec (RTuple [ROption (RLeaf (LInt true 0%Z 18446744073709551615%Z));
                         RMap (RLeaf LString) (RArray 2%nat (RLeaf LBool));
                         RResult (RLeaf LChar) (RRange (RLeaf (LInt false 0%Z 255%Z)))]) in
  let v := VSeq [VSeq [VSome (VInt 18446744073709551615%Z);
                       VMap [(VStr (lit "k"%string), VSeq [VBool true; VBool false])];
                       VVariant 1%nat [VStruct [VInt 1%Z; VInt 7%Z]]]] in
  lib_ok t = true /\
  exists j a, ser_ty [] (fun _ _ _ => None) t v = Some j /\ name_of [] t = Ok a /\
              print a = lit "Array<[bigint | null, { [key in string]?: [boolean, boolean] }, { Ok : string } | { Err : { start: number, end: number, } }]>"%string /\
              json_text j = lit "[[18446744073709551615,{""k"":[true,false]},{""Err"":{""start"":1,""end"":7}}]]"%string.
Proof. split; [reflexivity|]. eexists; eexists. repeat split; vm_compute; reflexivity. Qed.

Print Assumptions C01_library_layer.
