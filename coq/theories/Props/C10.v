(* C10 — serde and ts attribute spellings are equivalent; ts wins; unknown serde is inert.
   Statements only; proofs in Proofs/Attr_proofs.v.  The key tables (Gen/Tables.v) are regenerated
   from macros/src/attr/*.rs on every run: the table theorems are re-proved against the current source. *)
From TsRs Require Import Base.Str Base.Outcome Gen.Tables Model.Attr Proofs.Attr_proofs Proofs.Validity_table_proofs.
From Coq Require Import List.
Import ListNotations.

(* every handler of every impl_parse! table is one the model knows *)
Theorem C10_tables_classified : tables_ok = true.
Proof. exact tables_ok_true. Qed.

(* a key accepted in both spellings has the same handler (same field, same argument syntax) *)
Theorem C10_same_handler : shared_handlers_agree = true.
Proof. exact shared_handlers_agree_true. Qed.

(* every serde attribute the documentation lists as supported is in a serde table *)
Theorem C10_documented_keys_supported : documented_keys_supported = true.
Proof. exact documented_keys_supported_true. Qed.

(* no handler consumes its `=` twice (the struct-level `default = ".."` defect) *)
Theorem C10_no_double_assign : no_double_assign = true.
Proof. exact no_double_assign_true. Qed.

(* when both spellings set a key, the ts value is the effective one — whatever the order of the
   attributes; a key the ts attributes do not set falls through to serde *)
Theorem C10_ts_wins :
  forall pos attrs t r f,
    parse_ts_attrs pos attrs = Ok t -> from_attrs true pos attrs = Ok r ->
    has_field f t = true -> value_of f r = value_of f t.
Proof. exact ts_wins. Qed.

Theorem C10_serde_fills_in :
  forall pos attrs t r f,
    parse_ts_attrs pos attrs = Ok t -> from_attrs true pos attrs = Ok r ->
    has_field f t = false ->
    value_of f r = (if match pos with PField | PVariant => has_field (lit "skip") t | _ => false end then None
                    else value_of f (parse_serde_attrs pos attrs)).
Proof. exact serde_fills_in. Qed.

(* the token-level loop of the lenient (serde) parser on a comma-separated list is the entry-by-entry
   specification, for lists of ANY length *)
Theorem C10_serde_parser_refines_entries :
  forall table es fuel out,
    Forall (fun e => comma_free e = true /\ e <> []) es -> es <> [] -> (length es <= fuel)%nat ->
    parse_serde fuel table out (join_c es) = parse_entries table out es.
Proof. exact parse_serde_refines. Qed.

(* an unsupported serde attribute (any key outside the table, followed by any comma-free tokens) is
   inert at EVERY position of a serde list *)
Theorem C10_unknown_inert :
  forall table out es1 es2 u junk,
    tlookup u table = None -> comma_free junk = true ->
    Forall (fun e => comma_free e = true /\ e <> []) (es1 ++ es2) -> es1 ++ es2 <> [] ->
    parse_serde (S (length (es1 ++ es2))) table out (join_c (es1 ++ (KId u :: junk) :: es2)) =
    parse_serde (length (es1 ++ es2)) table out (join_c (es1 ++ es2)).
Proof. exact unknown_entry_inert. Qed.

Theorem C10_unknown_alone_inert :
  forall f table out u junk,
    tlookup u table = None -> comma_free junk = true ->
    parse_serde (S f) table out (KId u :: junk) = Ok out /\
    parse_serde (S f) table out (KId u :: junk ++ [KComma]) = Ok out.
Proof. exact unknown_alone_inert. Qed.

(* with serde compatibility switched off, serde attributes have no effect at all *)
Theorem C10_compat_off :
  forall pos attrs, from_attrs false pos attrs = from_attrs false pos (filter fst attrs).
Proof. exact compat_off. Qed.

(* several attributes of one item are merged left-biased, field by field (`self.x.or(other.x)`, `self.x || other.x`; only
   the documentation and the two collections `concrete` / `bound` differ): read from the four Attr::merge functions on every
   run; the model's merge (concatenation of first-match association lists) is that *)
Theorem C10_merge_is_left_biased :
  forallb left_biased (merge_rows_struct ++ merge_rows_enum ++ merge_rows_variant ++ merge_rows_field) = true /\
  (forall f a b, value_of f (a ++ b) = match value_of f a with Some v => Some v | None => value_of f b end).
Proof. split; [exact merge_rows_left_biased | exact value_of_app]. Qed.

(* the inputs that used to lose their neighbour *)
Example C10_regressions :
  from_attrs true PEnum [(false, [KId (lit "deny_unknown_fields"); KComma; KId (lit "tag"); KEq; KStr (lit "type")])]
    = Ok [(lit "tag", AStr (lit "type"))] /\
  from_attrs true PStruct [(false, [KId (lit "default"); KEq; KStr (lit "f"); KComma; KId (lit "rename_all"); KEq; KStr (lit "camelCase")])]
    = Ok [(lit "rename_all", AStr (lit "camelCase"))] /\
  from_attrs true PStruct [(false, [KId (lit "rename_all"); KEq; KStr (lit "camelCase"); KComma])]
    = Ok [(lit "rename_all", AStr (lit "camelCase"))].
Proof. repeat split; vm_compute; reflexivity. Qed.

Print Assumptions C10_tables_classified.
Print Assumptions C10_same_handler.
Print Assumptions C10_documented_keys_supported.
Print Assumptions C10_no_double_assign.
Print Assumptions C10_ts_wins.
Print Assumptions C10_serde_fills_in.
Print Assumptions C10_serde_parser_refines_entries.
Print Assumptions C10_unknown_inert.
Print Assumptions C10_unknown_alone_inert.
Print Assumptions C10_compat_off.
Print Assumptions C10_merge_is_left_biased.
