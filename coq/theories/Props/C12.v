(* C12 — built-in impls describe serde's representation of library types.  Statements only. *)
From TsRs Require Import Base.Str Base.Outcome Gen.Tables Model.Case Model.TsAst Model.Rust Model.Docs Model.Gen Spec.TsFree Spec.TsSem Spec.Serde Spec.LibSpec Spec.SerdeDe Proofs.Sem_lib_proofs Proofs.Gen_refs_proofs Proofs.De_proofs.
From Coq Require Import List.
Import ListNotations.

(* re-proved on every run against the rows REGENERATED from ts-rs/src/lib.rs *)
Theorem C12_primitive_rows_match_serde : primitive_rows_ok = true.
Proof. vm_compute. reflexivity. Qed.
Theorem C12_wrappers_are_the_transparent_ones : wrapper_rows_ok = true.
Proof. vm_compute. reflexivity. Qed.
Theorem C12_shadows_defer_to_the_right_impl : shadow_rows_ok = true.
Proof. vm_compute. reflexivity. Qed.
Theorem C12_limits : limits_ok = true.
Proof. vm_compute. reflexivity. Qed.

(* library type expressions of ANY nesting depth (Option, Vec/sets, arrays of EVERY length, tuples,
   maps with string/char/integer keys, transparent wrappers, Result, Range over the leaves) and every
   value: what serde_json emits is a member of the type TS::name() reports *)
Theorem C12_values_inhabit_reported_type :
  forall R E sd t v j a f,
    lib_ok t = true -> ser_ty R sd t v = Some j -> name_of R t = Ok a -> (rdepth t < f)%nat ->
    memberb E f a j = true.
Proof. exact lib_ser_member. Qed.

(* ... and conversely: every JSON value (objects with distinct keys) that is a member of the reported type is read by
   serde's Deserialize for the library type (Spec/SerdeDe.v: a value, or a leaf misfit — a number the Rust integer type
   cannot hold, a `char` string of another length), for type expressions of any depth whose arrays have at most 64 elements
   (above that the reported type is Array<T>, wider than [T; N]) *)
Theorem C12_members_of_reported_type_are_read :
  forall E dd t a j f,
    lib_ok t = true -> small_arr t = true -> name_of [] t = Ok a -> memberb E f a j = true -> wf_json j = true ->
    de_ty [] dd t j <> DReject.
Proof. exact lib_member_accepted. Qed.

Example C12_read_nonvacuous :
  let t := RVec (RTuple [ROption (RLeaf (LInt true 0%Z 18446744073709551615%Z));
                         RMap (RLeaf LString) (RArray 2%nat (RLeaf LBool));
                         RResult (RLeaf LChar) (RRange (RLeaf (LInt false 0%Z 255%Z)))]) in
  let j := JArr [JArr [JNull; JObj [(lit "k", JArr [JBool true; JBool false])];
                       JObj [(lit "Err", JObj [(lit "start", JInt 1); (lit "end", JInt 7)])]]] in
  lib_ok t = true /\ small_arr t = true /\ wf_json j = true /\
  exists a, name_of [] t = Ok a /\ memberb [] 10 a j = true /\
    de_ty [] (fun _ _ _ => DReject) t j = DOk (VSeq [VSeq [VNone; VMap [(VStr (lit "k"), VSeq [VBool true; VBool false])];
                                                          VVariant 1 [VStruct [VInt 1; VInt 7]]]]).
Proof. cbv zeta. split; [reflexivity|]. split; [reflexivity|]. split; [reflexivity|]. eexists. split; [reflexivity|]. split; vm_compute; reflexivity. Qed.

(* arrays: a tuple of n for n <= 64, Array<T> above — for every n, not only 0..65 *)
Theorem C12_array_shape :
  forall R n t a, name_of R t = Ok a ->
    name_of R (RArray n t) = Ok (if Nat.ltb 64 n then TArray a else TTuple (repeat a n)).
Proof. intros R n t a H. destruct n as [|n']; cbn [name_of]; [reflexivity|]. rewrite H. reflexivity. Qed.

(* the type names a library type refers to are those of (exportable) types among its arguments *)
Theorem C12_dependencies_are_the_arguments :
  forall R t a, name_of R t = Ok a -> incl (refs a) (eids R (push t)).
Proof. exact name_refs_incl. Qed.

(* macros/src/types/{enum,named,tuple}.rs use exactly the format strings listed in Proofs/Sem_lib_proofs.v: macro_formats_ok
   (read from the source on every run), and each produces the text the model prints for its construct *)
Theorem C12_derive_formats_from_source :
  same_set (literals_of "enum.rs") [L "({})"; L """{}"""; L "{{ ""{}"": {} }}"; L "{{ ""{}"": ""{}"" }}"; L "{{ ""{}"": ""{}"", ""{}"": {} }}";
                                     L "{{ ""{}"": ""{}"" }} & {}"] = true /\
  same_set (literals_of "named.rs") [L """{}"": ""{}"","; L "{{ {} }}"; L "{} & {}"; lit "
{}"; L "{}{}: {},"; L "{}{}{}: {},"] = true /\
  same_set (literals_of "tuple.rs") [L "[{}]"] = true /\
  fmt_apply (L "{{ ""{}"": ""{}"", ""{}"": {} }}") [L "t"; L "N"; L "c"; L "T"] = print (TObj OVariant [(qh "t", TLit (L "N")); (qh "c", v "T")]) /\
  fmt_apply (L "{{ ""{}"": ""{}"" }} & {}") [L "t"; L "N"; L "T"] = print (TInter [TObj OVariant [(qh "t", TLit (L "N"))]; v "T"]) /\
  fmt_apply (L "{{ {} }}") [fmt_apply (L "{}{}{}: {},") [fmt_apply (lit "
{}") [L "/** d */"]; L "a"; L "?"; L "T"]]
    = print (TObj OStruct [({| p_docs := L "/** d */"; p_key := L "a"; p_text := L "a"; p_optional := true |}, v "T")]).
Proof. destruct macro_formats_ok as (H1 & H2 & H3 & _ & _ & _ & _ & H8 & H9 & H10 & _). repeat split; assumption. Qed.

(* the text the model prints for Option / Result / Vec / HashMap / Range around placeholder arguments is what the format
   literals of the impls in ts-rs/src/lib.rs produce (literals read from the source on every run) *)
Theorem C12_container_formats_from_source :
  forallb lib_format_row_ok lib_formats = true /\ (9 <= length lib_formats)%nat.
Proof. exact lib_formats_ok. Qed.

Print Assumptions C12_members_of_reported_type_are_read.
Print Assumptions C12_container_formats_from_source.
Print Assumptions C12_derive_formats_from_source.
Print Assumptions C12_primitive_rows_match_serde.
Print Assumptions C12_wrappers_are_the_transparent_ones.
Print Assumptions C12_shadows_defer_to_the_right_impl.
Print Assumptions C12_limits.
Print Assumptions C12_values_inhabit_reported_type.
Print Assumptions C12_array_shape.
Print Assumptions C12_dependencies_are_the_arguments.
