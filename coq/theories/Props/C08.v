(* C08 — placeholder until Proofs/Path_proofs.v lands *)
From TsRs Require Import Base.Str Base.Outcome Model.Path.
Theorem C08_placeholder : forall a : comp, comp_eqb a a = true.
Proof. intros [| | |n]; cbn; auto. apply str_eqb_refl. Qed.
