(* C08 — import specifiers resolve to the dependency's file for every path pair.
   Property theorems only; each is closed by `exact` of a lemma from Proofs/Path_proofs.v. *)
From TsRs Require Import Base.Str Base.Outcome Model.Path Proofs.Path_proofs.

(* For paths of ANY depth and any component names: if the importing file `from` lies in directory
   `fdir` (after lexical normalisation against the current directory) and the imported file `to`
   normalises to `tdir/<stem>.ts`, then the specifier ts-rs writes
     - is relative (starts with `./` or `../`), contains no backslash,
     - does not end in `.ts` (ESM off) / ends in `.js` (ESM on),
     - and, resolved by the TypeScript rules from `fdir`, denotes exactly `tdir/<stem>.ts`.
   Hypotheses: component names are legal (non-empty, no `/`, not `.`/`..`: guaranteed for every
   output of `absolute`, lemma C08_absolute_shape), contain no backslash, the stem does not itself
   end in `.ts` (known class ts_ts_file_name) and the imported file is not an ancestor directory
   of the importing file (it is a file). *)
Theorem C08_resolves :
  forall (esm : bool) (cwd : list str) (from to : str) (fc : list comp) (fname : str)
         (fdir tdir : list str) (stem : str),
    names_ok cwd ->
    components from = fc ++ [Normal fname] ->
    absolute_comps cwd fc = Ok (Root :: map Normal fdir) ->
    absolute cwd to = Ok (Root :: map Normal (tdir ++ [stem ++ s_ts])) ->
    ends_with s_ts stem = false ->
    names_ok (fdir ++ tdir ++ [stem ++ s_ts]) ->
    no_backslash (fdir ++ tdir ++ [stem]) ->
    (forall r, fdir <> tdir ++ [stem ++ s_ts] ++ r) ->
    exists s, import_path esm cwd from to = Ok s /\
      is_relative_spec s = true /\
      ~ In backslash s /\
      (esm = false -> ends_with s_ts s = false) /\
      (esm = true -> ends_with s_js s = true) /\
      resolve esm fdir s = Some (tdir ++ [stem ++ s_ts]).
Proof. exact import_path_resolves. Qed.
Print Assumptions C08_resolves.

(* The same-file test of generate_imports is exact: it fires iff both paths denote one file. *)
Theorem C08_same_file :
  forall (esm : bool) (cwd : list str) (from to : str) (fc : list comp) (fname : str)
         (fdir tdir : list str) (stem : str),
    names_ok cwd ->
    components from = fc ++ [Normal fname] ->
    absolute_comps cwd fc = Ok (Root :: map Normal fdir) ->
    absolute cwd to = Ok (Root :: map Normal (tdir ++ [stem ++ s_ts])) ->
    ends_with s_ts stem = false ->
    names_ok (fdir ++ tdir ++ [stem ++ s_ts]) ->
    no_backslash (fdir ++ tdir ++ [stem]) ->
    (forall r, fdir <> tdir ++ [stem ++ s_ts] ++ r) ->
    forall fstem : str,
    fname = fstem ++ s_ts ->
    ends_with s_ts fstem = false ->
    ends_with s_js stem = false ->
    ends_with s_js fstem = false ->
    name_ok fname = true ->
    forall s, import_path esm cwd from to = Ok s ->
      (is_same_file from s = true <-> (fdir = tdir /\ fstem = stem)).
Proof. exact same_file_exact. Qed.
Print Assumptions C08_same_file.

(* The core, at component level: walking the computed relative path from the base directory
   arrives at the target, for paths of any depth. *)
Theorem C08_diff_walk :
  forall p b : list str, names_ok p -> names_ok b ->
    walk b (split_slash (render (diff_comps (map Normal p) (map Normal b)))) = Some p.
Proof. exact diff_walk. Qed.
Print Assumptions C08_diff_walk.

(* Base-directory independence: a common prefix (any spelling of the base directory normalises to
   one) cancels. *)
Theorem C08_base_independent :
  forall pre a b, diff_comps (pre ++ a) (pre ++ b) = diff_comps a b.
Proof. exact diff_common_prefix. Qed.
Print Assumptions C08_base_independent.

(* `absolute` yields a root followed by legal normal names only, never panics, is idempotent, and
   rejects every path that climbs above the root (also used by C17). *)
Theorem C08_absolute_shape :
  forall cwd cs r, names_ok cwd -> comps_wf cs -> absolute_comps cwd cs = Ok r ->
    exists ns, r = Root :: map Normal ns /\ names_ok ns.
Proof. exact absolute_shape. Qed.
Print Assumptions C08_absolute_shape.

Theorem C08_components_wf : forall s, comps_wf (components s).
Proof. exact components_wf. Qed.
Print Assumptions C08_components_wf.

Theorem C08_absolute_idempotent :
  forall cwd' ns, absolute_comps cwd' (Root :: map Normal ns) = Ok (Root :: map Normal ns).
Proof. exact absolute_idempotent. Qed.
Print Assumptions C08_absolute_idempotent.

Theorem C08_absolute_above_root :
  forall cwd k rest, (length cwd < k)%nat ->
    absolute_comps cwd (repeat Parent k ++ rest) = Err err_invalid_path.
Proof. exact absolute_above_root. Qed.
Print Assumptions C08_absolute_above_root.

Theorem C08_absolute_never_panics : forall cwd cs m, absolute_comps cwd cs <> Panic m.
Proof. exact absolute_never_panics. Qed.
Print Assumptions C08_absolute_never_panics.

(* Non-vacuity: a concrete pair of files in sibling directories meets every hypothesis. *)
Example C08_nonvacuous :
  let cwd := [lit "home"; lit "u"] in
  import_path false cwd (lit "./bindings/a/Foo.ts") (lit "./bindings/b/Bar.ts") = Ok (lit "../b/Bar") /\
  resolve false [lit "home"; lit "u"; lit "bindings"; lit "a"] (lit "../b/Bar")
    = Some [lit "home"; lit "u"; lit "bindings"; lit "b"; lit "Bar.ts"] /\
  absolute cwd (lit "./bindings/b/Bar.ts") = Ok (Root :: map Normal [lit "home"; lit "u"; lit "bindings"; lit "b"; lit "Bar.ts"]).
Proof. vm_compute. repeat split. Qed.
