(* C03 — exported files import exactly the names they use, from where they live.  Statements only;
   proofs in Proofs/Gen_refs_proofs.v (dependency level) and Proofs/GenExport_proofs.v (import level). *)
From TsRs Require Import Base.Str Base.Outcome Gen.Tables Model.Case Model.TsAst Model.Rust Model.Docs Model.Gen Model.Path Model.Merge Model.GenExport Spec.TsFree Proofs.Merge_algebra_proofs Proofs.Gen_refs_proofs Proofs.GenExport_proofs.
From Coq Require Import List.
Import ListNotations.

(* Dependency level, for every environment of definitions, every definition, nesting depth and
   attribute combination of the fragment: each type name the body of the declaration refers to is
   the TypeScript identifier of an exportable type handed to the visitor by the generated
   visit_dependencies() (so it becomes an import or is found in the same file, and is exported by
   export_all).  `type = ".."` overrides are opaque text (refs (TRaw _) = []). *)
Theorem C03_used_names_are_dependencies :
  forall is_upper is_alnum is_numeric R fuel id d dc l,
    Rust.lookup R id = Some d ->
    decl_of is_upper is_alnum is_numeric R fuel d = Ok dc ->
    deps R fuel d (dummies (attrs_of d)) = Ok l ->
    incl (refs (d_body dc)) (eids R l).
Proof. exact decl_refs_are_deps. Qed.

(* the same for any instantiation: inline() / inline_flattened() against visit_dependencies() *)
Theorem C03_inline_names_are_dependencies :
  forall is_upper is_alnum is_numeric R fuel id d args r l,
    Rust.lookup R id = Some d ->
    gen is_upper is_alnum is_numeric R fuel d args = Ok r ->
    deps R fuel d args = Ok l ->
    incl (refs (fst r)) (eids R l) /\ forall x, snd r = Some x -> incl (refs x) (eids R l).
Proof. intros ? ? ? R fuel. exact (gen_refs _ _ _ R fuel). Qed.

(* a reference by name: the names in name() are the identifiers of the exportable types among the
   type itself and what visit_generics() reports *)
Theorem C03_name_refs :
  forall R t a, name_of R t = Ok a -> incl (refs a) (eids R (push t)).
Proof. exact name_refs_incl. Qed.

(* Import level, for ANY dependency list: the import statements are sound, name each name once, and
   are complete up to equal names. *)
Theorem C03_imports :
  forall R esm cwd t out_dir deps m op,
    out_path R t = Some op ->
    import_groups R esm cwd t out_dir deps = Ok m ->
    let path := path_join out_dir op in
    (forall p n, has m p n ->
       exists e, In e deps /\ dname e = n /\ rty_eqb (dty e) t = false /\
                 import_path esm cwd path (path_join out_dir (dpath e)) = Ok p /\ is_same_file path p = false) /\
    (forall p p' n, has m p n -> has m p' n -> p = p') /\
    (forall e, In e deps -> rty_eqb (dty e) t = false ->
       exists e', In e' deps /\ dname e' = dname e /\ rty_eqb (dty e') t = false /\
                  placed esm cwd out_dir path m e').
Proof. exact import_groups_spec. Qed.

Print Assumptions C03_used_names_are_dependencies.
Print Assumptions C03_inline_names_are_dependencies.
Print Assumptions C03_name_refs.
Print Assumptions C03_imports.
