(* C03 — exported files import exactly the names they use, from where they live.  Statements only;
   proofs in Proofs/Gen_refs_proofs.v (dependency level) and Proofs/GenExport_proofs.v (import level). *)
From TsRs Require Import Base.Str Base.Outcome Gen.Tables Model.Case Model.TsAst Model.Rust Model.Docs Model.Gen Model.Path Model.Merge Model.GenExport Spec.TsFree Proofs.Merge_algebra_proofs Proofs.Gen_refs_proofs Proofs.Gen_refs_rev_proofs Proofs.GenExport_proofs.
From Coq Require Import List.
Import ListNotations.

(* Dependency level, for every environment of definitions, every definition, nesting depth and
   attribute combination of the fragment: each type name the body of the declaration refers to is
   the TypeScript identifier of an exportable type handed to the visitor by the generated
   visit_dependencies() (so it becomes an import or is found in the same file, and is exported by
   export_all).  `type = ".."` overrides are opaque text (refs (TRaw _) = []). *)
Theorem C03_used_names_are_dependencies :
  forall is_upper is_alnum is_numeric R fuel id d dc l,
    Rust.lookup R id = Some d ->
    decl_of is_upper is_alnum is_numeric R fuel d = Ok dc ->
    deps R fuel d (dummies (attrs_of d)) = Ok l ->
    incl (refs (d_body dc)) (eids R l).
Proof. exact decl_refs_are_deps. Qed.

(* the same for any instantiation: inline() / inline_flattened() against visit_dependencies() *)
Theorem C03_inline_names_are_dependencies :
  forall is_upper is_alnum is_numeric R fuel id d args r l,
    Rust.lookup R id = Some d ->
    gen is_upper is_alnum is_numeric R fuel d args = Ok r ->
    deps R fuel d args = Ok l ->
    incl (refs (fst r)) (eids R l) /\ forall x, snd r = Some x -> incl (refs x) (eids R l).
Proof. intros ? ? ? R fuel. exact (gen_refs _ _ _ R fuel). Qed.

(* .. and exactly those: where no type parameter has a default, no `as` sits on a variant printed as its bare name and no
   zero-length array occurs (def_exact, a boolean; a defaulted parameter is visited whether or not an argument replaces it, and
   `[Foo; 0]`, declared `[]`, visits Foo as C12 asks of every library type — the known classes of C03),
   every exportable type the generated visit_dependencies() hands to the visitor is named in the declaration: nothing is
   imported that is not used.  For every such environment, definition, fuel; and for every instantiation (inline()) *)
Theorem C03_dependencies_are_used_names :
  forall is_upper is_alnum is_numeric R fuel id d dc l,
    no_defaults_env R = true ->
    Rust.lookup R id = Some d ->
    decl_of is_upper is_alnum is_numeric R fuel d = Ok dc ->
    deps R fuel d (dummies (attrs_of d)) = Ok l ->
    incl (eids R l) (refs (d_body dc)).
Proof. intros iu ia inu R fuel id d dc l Hnd. exact (decl_deps_are_refs iu ia inu R Hnd fuel id d dc l). Qed.

Theorem C03_inline_dependencies_are_used_names :
  forall is_upper is_alnum is_numeric R fuel id d args r l,
    no_defaults_env R = true ->
    Rust.lookup R id = Some d -> forallb nz args = true ->
    gen is_upper is_alnum is_numeric R fuel d args = Ok r ->
    deps R fuel d args = Ok l ->
    incl (eids R l) (refs (fst r)) /\ forall x, snd r = Some x -> incl (eids R l) (refs x).
Proof. intros iu ia inu R fuel id d args r l Hnd. exact (gen_rev iu ia inu R Hnd fuel id d args r l). Qed.

(* a reference by name, both ways: the names in name() ARE the identifiers of the exportable types among the type itself and
   what visit_generics() reports, for every type without a zero-length array in it *)
Theorem C03_name_refs_exact :
  forall R t a, nz t = true -> name_of R t = Ok a -> incl (refs a) (eids R (push t)) /\ incl (eids R (push t)) (refs a).
Proof. intros R t a Hz H. split; [exact (name_refs_incl R t a H) | exact (name_refs_rev R t Hz a H)]. Qed.



(* a reference by name: the names in name() are the identifiers of the exportable types among the
   type itself and what visit_generics() reports *)
Theorem C03_name_refs :
  forall R t a, name_of R t = Ok a -> incl (refs a) (eids R (push t)).
Proof. exact name_refs_incl. Qed.

(* Import level, for ANY dependency list: the import statements are sound, name each name once, and
   are complete up to equal names. *)
Theorem C03_imports :
  forall R esm cwd t out_dir deps m op,
    out_path R t = Some op ->
    import_groups R esm cwd t out_dir deps = Ok m ->
    let path := path_join out_dir op in
    (forall p n, has m p n ->
       exists e, In e deps /\ dname e = n /\ rty_eqb (dty e) t = false /\
                 import_path esm cwd path (path_join out_dir (dpath e)) = Ok p /\ is_same_file path p = false) /\
    (forall p p' n, has m p n -> has m p' n -> p = p') /\
    (forall e, In e deps -> rty_eqb (dty e) t = false ->
       exists e', In e' deps /\ dname e' = dname e /\ rty_eqb (dty e') t = false /\
                  placed esm cwd out_dir path m e').
Proof. exact import_groups_spec. Qed.

(* non-vacuity: struct Foo { x: i32 }; struct Z { b: Vec<Foo>, c: Option<(Foo, u8)> } — Z depends on Foo and names it; and the
   environment of the known class: struct Z0 { a: [Foo; 0] } *)
Module C03_ex.
Local Open Scope string_scope.
Definition l (s : String.string) : str := lit s.
Definition fd (n : String.string) (t : rty) : field :=
  {| f_ident := l n; f_ty := t; f_serde_ty := t; f_rename := None; f_skip := false; f_inline := false; f_flatten := false;
     f_optional := NotOptional; f_type := None; f_docs := []; f_skip_none := false |}.
Definition ca (n : String.string) : cattrs :=
  {| c_ident := l n; c_rename := None; c_rename_all := None; c_tag := None; c_optional_fields := NotOptional; c_docs := [];
     c_export_to := None; c_type := None; c_as := None; c_params := [] |}.
Definition Foo := DStruct (ca "Foo") (SNamed [fd "x" (RLeaf (LInt false (-2147483648) 2147483647))]).
Definition Z := DStruct (ca "Z") (SNamed [fd "b" (RVec (RNamed (l "Foo") [])); fd "c" (ROption (RTuple [RNamed (l "Foo") []; RLeaf LBool]))]).
Definition Z0 := DStruct (ca "Z0") (SNamed [fd "a" (RArray 0 (RNamed (l "Foo") []))]).
Definition R : env := [(l "Foo", Foo); (l "Z", Z)].
Definition R0 : env := [(l "Foo", Foo); (l "Z0", Z0)].
End C03_ex.
Example C03_exact_nonvacuous :
  let al := fun c => (is_ascii_upper c || is_ascii_lower c || is_ascii_digit c)%bool in
  no_defaults_env C03_ex.R = true /\ no_defaults_env C03_ex.R0 = false /\
  omap (eids C03_ex.R) (deps C03_ex.R 5 C03_ex.Z []) = Ok [lit "Foo"%string; lit "Foo"%string] /\
  omap (fun dc => refs (d_body dc)) (decl_of is_ascii_upper al is_ascii_digit C03_ex.R 5 C03_ex.Z) = Ok [lit "Foo"%string; lit "Foo"%string] /\
  omap (eids C03_ex.R0) (deps C03_ex.R0 5 C03_ex.Z0 []) = Ok [lit "Foo"%string] /\
  omap print_decl (decl_of is_ascii_upper al is_ascii_digit C03_ex.R0 5 C03_ex.Z0) = Ok (lit "type Z0 = { a: [], };"%string).
Proof. cbv zeta. repeat split; vm_compute; reflexivity. Qed.

(* the known class, as a theorem about the model: a zero-length array of a named type visits it and names nothing *)
Example C03_zero_length_array_refuted :
  exists R t a, name_of R t = Ok a /\ refs a = [] /\ eids R (push t) <> [].
Proof.
  exists C03_ex.R0, (RArray 0 (RNamed (lit "Foo"%string) [])). eexists. split; [vm_compute; reflexivity|]. split; [reflexivity|]. vm_compute. discriminate.
Qed.

Print Assumptions C03_used_names_are_dependencies.
Print Assumptions C03_inline_names_are_dependencies.
Print Assumptions C03_name_refs.
Print Assumptions C03_dependencies_are_used_names.
Print Assumptions C03_inline_dependencies_are_used_names.
Print Assumptions C03_name_refs_exact.
Print Assumptions C03_imports.
