(* C11 — an export writes exactly the root's and its dependencies' files, as documented.  Statements only; proofs in
   Proofs/ExportSM_proofs.v over Model/ExportSM.v (recursive walk over visit_dependencies with the seen-set). *)
From TsRs Require Import Base.Str Base.Outcome Gen.Tables Model.Case Model.TsAst Model.Rust Model.Gen Model.Path Model.Merge Model.Imports Model.ExportSM
  Spec.PathOracle Proofs.Path_proofs Proofs.ExportSM_proofs.
From Coq Require Import List.
Import ListNotations.

(* every exportable type reachable from the root (through any chain of visit_dependencies: cycles, generic arguments,
   inlined / flattened types, `as` types and parameter defaults are all just edges of the graph TS reports) is exported:
   when export_all / export_all_to returns Ok, its name is recorded under its own target path *)
Theorem C11_every_reachable_type_is_exported :
  forall cfg U st i dir st', names_ok (c_cwd cfg) ->
    export_all_into cfg U st i dir = (st', Ok tt) ->
    forall j, reach U i j -> exists p, target cfg U j dir = Some p /\ registered (s_reg st') p (t_ident (tget U j)).
Proof. intros cfg U st i dir st' Hc. exact (export_all_complete cfg U Hc st i dir st'). Qed.

(* and nothing else is touched, whatever the outcome: regular files and registry entries change at target paths of
   reachable exportable types only (pre-existing unrelated files stay byte for byte); no registry entry is lost *)
Theorem C11_nothing_else_is_touched :
  forall cfg U st i dir st' r, names_ok (c_cwd cfg) ->
    export_all_into cfg U st i dir = (st', r) ->
    reg_le (s_reg st) (s_reg st') /\
    (forall q, ~ (exists j, reach U i j /\ target cfg U j dir = Some q) ->
       forall c, fs_get (s_fs st') q = Some (File c) <-> fs_get (s_fs st) q = Some (File c)) /\
    (forall q, (forall j, reach U i j -> target cfg U j dir <> Some q) -> reg_get (s_reg st') q = reg_get (s_reg st) q).
Proof. intros cfg U st i dir st' r Hc. exact (export_all_frame cfg U Hc st i dir st' r). Qed.

(* the location: the base directory joined with the path the type reports for itself, made absolute and dot-free *)
Theorem C11_target_is_base_joined_with_output_path :
  forall cfg U j dir p,
    target cfg U j dir = Some p <->
    exists op cs, t_out (tget U j) = Some op /\ absolute (c_cwd cfg) (path_join dir op) = Ok cs /\ p = names_of_abs cs.
Proof.
  intros cfg U j dir p. unfold target, target_of. destruct (t_out (tget U j)) as [op|]; [|split; [discriminate | intros (op & cs & H & _); discriminate]].
  destruct (absolute (c_cwd cfg) (path_join dir op)) as [cs|e|m] eqn:E.
  - split; [intros H; inversion H; exists op, cs; auto | intros (op' & cs' & H1 & H2 & ->); inversion H1; subst; rewrite E in H2; inversion H2; reflexivity].
  - split; [discriminate | intros (op' & cs' & H1 & H2 & _); inversion H1; subst; rewrite E in H2; discriminate].
  - split; [discriminate | intros (op' & cs' & H1 & H2 & _); inversion H1; subst; rewrite E in H2; discriminate].
Qed.

(* one successful export_into writes under exactly that path *)
Theorem C11_written_path_is_the_reported_path :
  forall cfg U st i dir st', names_ok (c_cwd cfg) ->
    export_into cfg U st i dir = (st', Ok tt) ->
    exists p, target cfg U i dir = Some p /\ registered (s_reg st') p (t_ident (tget U i)).
Proof. intros cfg U st i dir st' Hc. exact (export_into_ok cfg U Hc st i dir st'). Qed.

(* the relative output path the derive generates: `<TypeScript name>.ts` by default, the given path with that appended
   when export_to ends in `/`, the given path verbatim otherwise *)
Theorem C11_output_path_forms :
  forall d,
    output_path_of d =
    match c_export_to (attrs_of d) with
    | None => ts_ident d ++ lit ".ts"
    | Some s => if ends_with (lit "/") s then s ++ ts_ident d ++ lit ".ts" else s
    end.
Proof. reflexivity. Qed.

(* the walk terminates on every graph, cycles included: the seen-set strictly grows, so the |U| + 1 units of fuel the model
   gives it are enough — any larger amount gives the same result (running out of fuel never happens) *)
Theorem C11_walk_terminates_within_its_fuel :
  forall cfg U st i dir k,
    export_recursive cfg U (S (length U) + k) st [] i dir = export_recursive cfg U (S (length U)) st [] i dir.
Proof. exact fuel_is_enough. Qed.

(* non-vacuity: a cycle A <-> B, C reachable only through B, D not exportable, E unrelated; export_all(A) records A, B, C,
   writes three files and leaves the unrelated file alone *)
Module C11_ex.
Local Open Scope string_scope.
Definition l (s : String.string) : str := lit s.
Definition mk (n : String.string) (o : option String.string) (vs : list nat) (k : nat) : tinfo :=
  {| t_ident := l n; t_out := match o with Some s => Some (l s) | None => None end; t_decl := l "export type " ++ l n ++ l " = null;"; t_visits := vs; t_wg := k |}.
Definition U : universe := [mk "A" (Some "A.ts") [1; 3]%nat 0%nat; mk "B" (Some "sub/B.ts") [0; 2]%nat 1%nat; mk "C" (Some "../C.ts") [] 2%nat; mk "D" None [4]%nat 3%nat; mk "E" (Some "E.ts") [] 4%nat].
Definition cfg : config := {| c_esm := false; c_cwd := [l "w"]; c_env := None |}.
Definition fs0 : fsys := [([l "w"; l "bindings"; l "other.txt"], File (l "keep"))].
Definition res := export_all_into cfg U (init_state fs0) 0%nat (l "./bindings").
End C11_ex.
Example C11_nonvacuous :
  snd C11_ex.res = Ok tt /\
  map fst (files_of (s_fs (fst C11_ex.res))) =
    map (map lit) [["w"; "C.ts"]; ["w"; "bindings"; "sub"; "B.ts"]; ["w"; "bindings"; "A.ts"]; ["w"; "bindings"; "other.txt"]]%string /\
  reach C11_ex.U 0%nat 2%nat /\ ~ reach C11_ex.U 0%nat 4%nat.
Proof.
  split; [vm_compute; reflexivity|]. split; [vm_compute; reflexivity|]. split.
  - apply (reach_step _ 0%nat 1%nat 2%nat); [apply (reach_step _ 0%nat 0%nat 1%nat); [apply reach_root | left; reflexivity | discriminate] | right; left; reflexivity | discriminate].
  - assert (G : forall j, reach C11_ex.U 0%nat j -> j = 0%nat \/ j = 1%nat \/ j = 2%nat).
    { induction 1 as [|j k Hr IH Hk Ho]; [left; reflexivity|]. destruct IH as [-> | [-> | ->]]; cbn in Hk.
      - destruct Hk as [Hk|[Hk|Hk]]; [subst k; auto | subst k; contradiction Ho; reflexivity | contradiction].
      - destruct Hk as [Hk|[Hk|Hk]]; [subst k; auto | subst k; auto | contradiction].
      - contradiction. }
    intros H. destruct (G 4%nat H) as [E|[E|E]]; discriminate E.
Qed.

Print Assumptions C11_every_reachable_type_is_exported.
Print Assumptions C11_nothing_else_is_touched.
Print Assumptions C11_target_is_base_joined_with_output_path.
Print Assumptions C11_written_path_is_the_reported_path.
Print Assumptions C11_output_path_forms.
Print Assumptions C11_walk_terminates_within_its_fuel.
