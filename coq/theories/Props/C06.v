(* C06 — export results depend only on what was exported, not how or in what order.  Statements only; proofs in
   Proofs/ExportSM_proofs.v over the state machine Model/ExportSM.v (file system x registry; export / export_all /
   export_all_to with the recursive walk, after the fix e6b6a1a that normalises in export_to). *)
From TsRs Require Import Base.Str Base.Outcome Gen.Tables Model.Path Model.Merge Model.MergeSpec Model.Imports Model.ExportSM
  Spec.PathOracle Proofs.Path_proofs Proofs.Merge_algebra_proofs Proofs.Merge_history_proofs Proofs.ExportSM_proofs.
From Coq Require Import List.
Import ListNotations.

(* a declaration that has been exported is never lost: within a process, whatever is exported afterwards (any history of
   export calls and of file-system events, any outcome), every name recorded for a file stays recorded *)
Theorem C06_registry_never_lost :
  forall cfg U h st st' rs, names_ok (c_cwd cfg) ->
    Forall (fun o => match o with NewProcess => False | _ => True end) h ->
    run cfg U st h = (st', rs) ->
    forall p name, registered (s_reg st) p name -> registered (s_reg st') p name.
Proof. intros cfg U h st st' rs Hc Hh H p name. apply registered_le. exact (run_reg_le cfg U Hc h st st' rs Hh H). Qed.

(* which entry point is used cannot be observed: T::export() IS export_into the default directory (both normalise the
   path before the registry is asked) *)
Theorem C06_entry_points_agree :
  forall cfg U st i, names_ok (c_cwd cfg) ->
    step cfg U st (Export i) = export_into cfg U st i (default_out_dir cfg).
Proof. intros cfg U st i Hc. exact (export_is_export_into cfg U Hc st i). Qed.

(* how the directory is spelled cannot be observed: two spellings that normalise to the same absolute path give the same
   call (relative, absolute, `./`, trailing `/`, `..` segments: C08's theorems say when they do) *)
Theorem C06_spelling_independent :
  forall cfg U st i d1 d2,
    (forall op, t_out (tget U i) = Some op -> absolute (c_cwd cfg) (path_join d1 op) = absolute (c_cwd cfg) (path_join d2 op)) ->
    export_into cfg U st i d1 = export_into cfg U st i d2.
Proof. exact export_into_spelling. Qed.

(* stale files cannot leak: the first touch of a path in a process replaces whatever was there *)
Theorem C06_first_touch_truncates :
  forall st p name text st', reg_get (s_reg st) p = None ->
    export_and_merge st p name text = (st', Ok tt) ->
    fs_get (s_fs st') p = Some (File text) /\ reg_get (s_reg st') p = Some [name].
Proof. exact first_touch_truncates. Qed.

(* one path of the state machine IS the single-file model of C05: a successful export_and_merge is export_raw on the
   view of that path and leaves the views of all other paths alone *)
Theorem C06_one_path_is_a_C05_file :
  forall st p name text st', Inv st -> export_and_merge st p name text = (st', Ok tt) ->
    export_raw (view st p) name text = Ok (view st' p) /\ Inv st' /\ (forall q, q <> p -> view st' q = view st q).
Proof. exact eam_refines. Qed.

(* THE statement: for every history of export calls in a fresh process, on any initial directory contents (stale files
   included), whatever the outcomes: every file of the final state went through a sequence of single-file exports, each the
   (name, export text) of a type that some call of the history exports to that very path; and whenever those contributions
   are the texts of a good set of items (C05's hypotheses), the file IS their canonical file — which depends on the SET
   of items only (C05_canonical_order_free), not on call order, entry point, spelling or what was there before *)
Theorem C06_final_files_are_canonical :
  forall cfg U h fs st' rs, names_ok (c_cwd cfg) ->
    forallb is_export h = true -> run cfg U (init_state fs) h = (st', rs) ->
    forall q, exists l,
      run_raw f_init l = Ok (view st' q) /\
      Forall (fun it => exists j, (exists o, In o h /\ op_targets cfg U o j q) /\ contribution cfg U j it) l /\
      (forall items, l = map (fun i => (it_ident i, item_text i)) items -> items <> [] -> good_history items ->
         content_at (s_fs st') q = Some (canonical_file items)).
Proof. intros cfg U h fs st' rs Hc. exact (final_files_canonical cfg U Hc h fs st' rs). Qed.

(* .. spelled out for two histories: different call orders, entry points, spellings, initial trees (fs1, fs2 arbitrary) —
   if what reaches a path is the same set of good items (as lists: any permutation), the file is the same, byte for byte *)
Theorem C06_history_independent :
  forall cfg U h1 h2 fs1 fs2 st1 rs1 st2 rs2 q, names_ok (c_cwd cfg) ->
    forallb is_export h1 = true -> run cfg U (init_state fs1) h1 = (st1, rs1) ->
    forallb is_export h2 = true -> run cfg U (init_state fs2) h2 = (st2, rs2) ->
    forall items1 items2,
      run_raw f_init (map (fun i => (it_ident i, item_text i)) items1) = Ok (view st1 q) ->
      run_raw f_init (map (fun i => (it_ident i, item_text i)) items2) = Ok (view st2 q) ->
      items1 <> [] -> good_history items1 -> good_history items2 -> Permutation.Permutation items1 items2 ->
      content_at (s_fs st1) q = content_at (s_fs st2) q /\ content_at (s_fs st1) q = Some (canonical_file items1).
Proof.
  intros cfg U h1 h2 fs1 fs2 st1 rs1 st2 rs2 q Hc Hh1 H1 Hh2 H2 items1 items2 R1 R2 Hne G1 G2 Hp.
  assert (Hne2 : items2 <> []) by (intros ->; apply Permutation.Permutation_sym, Permutation.Permutation_nil in Hp; contradiction).
  assert (C1 : content_at (s_fs st1) q = Some (canonical_file items1)).
  { rewrite run_raw_items in R1. pose proof (file_after_canonical items1 Hne G1) as Hc1. unfold file_after in Hc1. rewrite R1 in Hc1. cbn [omap] in Hc1.
    injection Hc1 as Hc1. unfold view in Hc1. destruct (reg_get (s_reg st1) q); cbn [f_content f_init] in Hc1; [exact Hc1 | discriminate Hc1]. }
  assert (C2 : content_at (s_fs st2) q = Some (canonical_file items2)).
  { rewrite run_raw_items in R2. pose proof (file_after_canonical items2 Hne2 G2) as Hc2. unfold file_after in Hc2. rewrite R2 in Hc2. cbn [omap] in Hc2.
    injection Hc2 as Hc2. unfold view in Hc2. destruct (reg_get (s_reg st2) q); cbn [f_content f_init] in Hc2; [exact Hc2 | discriminate Hc2]. }
  split; [|exact C1]. rewrite C1, C2. f_equal. apply canonical_file_perm; [exact (proj1 (proj2 (proj2 G1))) | exact Hp].
Qed.

(* a declaration that has been exported is never lost from the FILE: in the final file of any history, the block of every
   item that reached the path stands intact between two line breaks *)
Theorem C06_exported_declaration_stays_in_the_file :
  forall cfg U h fs st' rs q items i, names_ok (c_cwd cfg) ->
    forallb is_export h = true -> run cfg U (init_state fs) h = (st', rs) ->
    run_raw f_init (map (fun i => (it_ident i, item_text i)) items) = Ok (view st' q) ->
    good_history items -> In i items ->
    exists pre post, content_at (s_fs st') q = Some (pre ++ [nl] ++ it_block i ++ [nl] ++ post).
Proof.
  intros cfg U h fs st' rs q items i Hc Hh H R G Hi.
  assert (Hne : items <> []) by (intros ->; contradiction).
  rewrite run_raw_items in R. pose proof (file_after_canonical items Hne G) as Hc1. unfold file_after in Hc1. rewrite R in Hc1. cbn [omap] in Hc1.
  injection Hc1 as Hc1. unfold view in Hc1. destruct (reg_get (s_reg st') q); cbn [f_content f_init] in Hc1; [|discriminate Hc1].
  destruct (canonical_file_lossless items i Hi) as (pre & post & E). exists pre, post. rewrite Hc1, E. reflexivity.
Qed.

(* every export text is the text of an item (notice, import groups, declaration block), so the last clause applies *)
Theorem C06_export_text_is_an_item :
  forall esm cwd U i dir s, export_to_string esm cwd U i dir = Ok s ->
    exists m, s = item_text {| it_ident := t_ident (tget U i); it_imports := m; it_block := t_decl (tget U i) |}.
Proof. exact export_text_is_item. Qed.

(* non-vacuity: two types sharing a file, exported in both orders through different entry points and spellings, onto a
   stale file: the same final file *)
Module C06_ex.
Local Open Scope string_scope.
Definition l (s : String.string) : str := lit s.
Definition A : tinfo := {| t_ident := l "A"; t_out := Some (l "shared.ts"); t_decl := l "export type A = number;"; t_visits := [1%nat]; t_wg := 0%nat |}.
Definition B : tinfo := {| t_ident := l "B"; t_out := Some (l "shared.ts"); t_decl := l "export type B = A;"; t_visits := []; t_wg := 1%nat |}.
Definition U : universe := [A; B].
Definition cfg : config := {| c_esm := false; c_cwd := [l "w"]; c_env := None |}.
Definition stale : fsys := [([l "w"; l "bindings"; l "shared.ts"], File (l "stale")); ([l "w"; l "bindings"], Dir); ([l "w"], Dir)].
Definition tree (h : list op) := content_at (s_fs (fst (run cfg U (init_state stale) h))) [l "w"; l "bindings"; l "shared.ts"].
End C06_ex.
Example C06_nonvacuous :
  C06_ex.tree [ExportAll 0%nat] = C06_ex.tree [Export 1%nat; ExportAllTo 0%nat (lit "./bindings/../bindings/"%string)] /\
  C06_ex.tree [ExportAll 0%nat] = C06_ex.tree [ExportAllTo 1%nat (lit "/w/bindings"%string); Export 0%nat; Export 1%nat] /\
  (exists c, C06_ex.tree [ExportAll 0%nat] = Some c /\ c <> lit "stale"%string).
Proof. split; [vm_compute; reflexivity|]. split; [vm_compute; reflexivity|]. eexists. split; [vm_compute; reflexivity | discriminate]. Qed.

Print Assumptions C06_registry_never_lost.
Print Assumptions C06_entry_points_agree.
Print Assumptions C06_spelling_independent.
Print Assumptions C06_first_touch_truncates.
Print Assumptions C06_one_path_is_a_C05_file.
Print Assumptions C06_final_files_are_canonical.
Print Assumptions C06_export_text_is_an_item.
Print Assumptions C06_history_independent.
Print Assumptions C06_exported_declaration_stays_in_the_file.
