(* C06 — placeholder until Proofs/ExportSM_proofs.v lands *)
From TsRs Require Import Base.Str Base.Outcome Model.ExportSM.
Theorem C06_placeholder : forall fs p n, fs_get (fs_set fs p n) p = Some n.
Proof.
  intros fs p n. unfold fs_set. cbn [fs_get].
  assert (H : Spec.PathOracle.list_str_eqb p p = true).
  { induction p as [|x p IH]; cbn; [reflexivity|]. rewrite str_eqb_refl, IH. reflexivity. }
  rewrite H. reflexivity.
Qed.
