(* C07 — declarations of generic types are parametric and well-scoped.  Statements only; proofs are
   in Proofs/Gen_scoped_proofs.v, Gen_subst_proofs.v, Gen_decl_proofs.v. *)
From TsRs Require Import Base.Str Base.Outcome Gen.Tables Model.Case Model.TsAst Model.Rust Model.Docs Model.Gen
  Spec.TsFree Proofs.Gen_scoped_proofs Proofs.Gen_subst_proofs Proofs.Gen_decl_proofs.
From Coq Require Import List.
Import ListNotations.
Open Scope string_scope.
Open Scope list_scope.

(* decl() takes no type arguments in the model: `decl_of fuel d` is a function of the definition
   alone (the implementation is held to this by the correspondence run, which compares decl() of
   three instantiations of every generic definition with this one text). *)

(* the declaration binds exactly the definition's type parameters (in order, with the names of
   their defaults) and its body mentions no other type parameter *)
Theorem C07_scoped :
  forall is_upper is_alnum is_numeric R fuel id d dc,
    (forall id d, lookup R id = Some d -> src_def d = true) ->
    lookup R id = Some d ->
    decl_of is_upper is_alnum is_numeric R fuel d = Ok dc ->
    incl (ftv (d_body dc)) (map fst (d_params dc)) /\
    map fst (d_params dc) = map fst (c_params (attrs_of d)).
Proof. intros ? ? ? R fuel id d dc Henv. exact (decl_scoped _ _ _ R Henv fuel id d dc). Qed.

Theorem C07_defaults_scoped :
  forall is_upper is_alnum is_numeric R fuel id d dc,
    (forall id d, lookup R id = Some d -> src_def d = true) ->
    lookup R id = Some d ->
    decl_of is_upper is_alnum is_numeric R fuel d = Ok dc ->
    forall p x, In p (d_params dc) -> snd p = Some x -> incl (ftv x) (map fst (c_params (attrs_of d))).
Proof. intros ? ? ? R fuel id d dc Henv. exact (decl_defaults_scoped _ _ _ R Henv fuel id d dc). Qed.

Theorem C07_params :
  forall is_upper is_alnum is_numeric R fuel d dc,
    decl_of is_upper is_alnum is_numeric R fuel d = Ok dc ->
    d_name dc = ts_ident d /\
    Forall2 (fun p q => fst q = fst p /\
                        match snd p with
                        | None => snd q = None
                        | Some u => exists x, name_of R (rsubst (dummies (attrs_of d)) u) = Ok x /\ snd q = Some x
                        end) (c_params (attrs_of d)) (d_params dc).
Proof. exact decl_params. Qed.

(* a reference to an instantiation is the identifier applied to the names of the arguments *)
Theorem C07_name :
  forall R id d args l,
    lookup R id = Some d -> omap_list (name_of R) args = Ok l ->
    name_of R (RNamed id args) = Ok (TRef (ts_ident d) l).
Proof. exact name_of_named. Qed.

(* expanding the generic declaration at the arguments gives the instantiation's concrete form:
   parameters in name position become the arguments' names, parameters in flattened position the
   arguments' flattened forms, nothing else changes.  Known class excluded by `opt_def_ok`:
   `optional` / `optional_fields` deciding `?` on a field whose type is a bare type parameter. *)
Theorem C07_instantiate :
  forall is_upper is_alnum is_numeric R fuel id d targs r r',
    (forall id d, lookup R id = Some d -> src_def d = true /\ opt_def_ok d = true) ->
    lookup R id = Some d ->
    NoDup (map fst (c_params (attrs_of d))) -> length targs = length (c_params (attrs_of d)) ->
    gen is_upper is_alnum is_numeric R fuel d (dummies (attrs_of d)) = Ok r ->
    gen is_upper is_alnum is_numeric R fuel d targs = Ok r' ->
    inst is_upper is_alnum is_numeric R (rho_of (map fst (c_params (attrs_of d))) targs) (fst r) (fst r').
Proof. intros ? ? ? R fuel id d targs r r' Henv. exact (decl_body_instantiates _ _ _ R Henv fuel id d targs r r'). Qed.

(* --- the hypotheses are inhabited, and the excluded class is a real one --------------------- *)
Definition mkf (id : String.string) (t : rty) : field :=
  {| f_ident := lit id; f_ty := t; f_serde_ty := t; f_rename := None; f_skip := false; f_inline := false;
     f_flatten := false; f_optional := NotOptional; f_type := None; f_docs := []; f_skip_none := false |}.
Definition mka (id : String.string) (ps : list (str * option rty)) (opt : optional) : cattrs :=
  {| c_ident := lit id; c_rename := None; c_rename_all := None; c_tag := None; c_optional_fields := opt;
     c_docs := []; c_export_to := None; c_type := None; c_as := None; c_params := ps |}.
Definition i32 : rty := RLeaf (LInt false (-2147483648) 2147483647).
Definition ex_env : env :=
  [ (lit "Pair", DStruct (mka "Pair" [(lit "A", None); (lit "B", Some i32)] NotOptional)
                   (SNamed [mkf "first" (RParam 0); mkf "second" (RVec (RParam 1))]));
    (lit "Holder", DStruct (mka "Holder" [(lit "T", None)] NotOptional)
                   (SNamed [ {| f_ident := lit "inner"; f_ty := RNamed (lit "Pair") [RParam 0; RParam 0]; f_serde_ty := RParam 0;
                                f_rename := None; f_skip := false; f_inline := true; f_flatten := false;
                                f_optional := NotOptional; f_type := None; f_docs := []; f_skip_none := false |};
                             {| f_ident := lit "rest"; f_ty := RParam 0; f_serde_ty := RParam 0;
                                f_rename := None; f_skip := false; f_inline := false; f_flatten := true;
                                f_optional := NotOptional; f_type := None; f_docs := []; f_skip_none := false |} ]));
    (lit "Opt", DStruct (mka "Opt" [(lit "T", None)] (Optional true)) (SNamed [mkf "x" (RParam 0)])) ].
Definition asc (c : char) : bool := is_ascii_upper c.
Definition aln (c : char) : bool := is_ascii_upper c || is_ascii_lower c || is_ascii_digit c.

Example C07_nonvacuous :
  exists d r r',
    lookup ex_env (lit "Holder") = Some d /\
    src_def d = true /\ opt_def_ok d = true /\
    gen asc aln is_ascii_digit ex_env 5 d (dummies (attrs_of d)) = Ok r /\
    gen asc aln is_ascii_digit ex_env 5 d [RNamed (lit "Pair") [i32; i32]] = Ok r' /\
    print (fst r) = lit "{ inner: { first: T, second: Array<T>, }, } & T" /\
    print (fst r') = lit "{ inner: { first: Pair<number, number>, second: Array<Pair<number, number>>, }, first: number, second: Array<number>, }".
Proof. eexists; eexists; eexists. repeat split; vm_compute; reflexivity. Qed.

(* the excluded class: `#[ts(optional_fields)] struct Opt<T> { x: T }` at T = Option<i32> — the
   generic declaration says `x: T`, the concrete one `x?: number | null` *)
Example C07_known_class_witness :
  exists d r r',
    lookup ex_env (lit "Opt") = Some d /\ opt_def_ok d = false /\
    gen asc aln is_ascii_digit ex_env 5 d (dummies (attrs_of d)) = Ok r /\
    gen asc aln is_ascii_digit ex_env 5 d [ROption i32] = Ok r' /\
    print (fst r) = lit "{ x: T, }" /\ print (fst r') = lit "{ x?: number | null, }".
Proof. eexists; eexists; eexists. repeat split; vm_compute; reflexivity. Qed.

Print Assumptions C07_scoped.
Print Assumptions C07_defaults_scoped.
Print Assumptions C07_params.
Print Assumptions C07_name.
Print Assumptions C07_instantiate.
