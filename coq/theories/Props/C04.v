(* C04 — exported files are well-formed modules holding exactly the requested types.  Statements only.
   PROVED: the layout of every exported text and of every merged file; that the text parses under an
   independent TypeScript grammar is DECIDED on every run by parsing the real files (tools/tsparse.py). *)
From TsRs Require Import Base.Str Base.Outcome Gen.Tables Model.Case Model.TsAst Model.Rust Model.Docs Model.Gen Model.Path Model.Merge Model.GenExport Proofs.Export_shape_proofs.
From Coq Require Import List.
Import ListNotations.

(* every exported text: the notice, the import statements, a blank line, the doc block, `export ` +
   the declaration of exactly the requested type, a final newline *)
Theorem C04_export_layout :
  forall is_upper is_alnum is_numeric R esm cwd fuel t dir s,
    export_string is_upper is_alnum is_numeric R esm cwd fuel t dir = Ok s ->
    exists id d args m dc,
      t = RNamed id args /\ Rust.lookup R id = Some d /\
      decl_of is_upper is_alnum is_numeric R fuel d = Ok dc /\
      s = NOTE ++ (render_imports m ++ [nl]) ++ (parse_docs (c_docs (attrs_of d)) ++ lit "export " ++ print_decl dc) ++ [nl].
Proof. intros ? ? ? R esm cwd. exact (export_layout _ _ _ R esm cwd). Qed.

Theorem C04_decl_shape :
  forall is_upper is_alnum is_numeric R fuel d dc,
    decl_of is_upper is_alnum is_numeric R fuel d = Ok dc ->
    print_decl dc = lit "type " ++ ts_ident d ++ print_params (d_params dc) ++ lit " = " ++ print (d_body dc) ++ lit ";".
Proof. intros ? ? ? R. exact (decl_shape _ _ _ R). Qed.

Theorem C04_field_name_quoting :
  forall is_alnum is_numeric n,
    (raw_name_to_ts_field is_alnum is_numeric n = n /\
     forallb (fun c => is_alnum c || (c =? 95)%N || (c =? 36)%N)%bool n = true /\
     match n with [] => True | c :: _ => is_numeric c = false end) \/
    raw_name_to_ts_field is_alnum is_numeric n = [34%N] ++ n ++ [34%N].
Proof. exact field_name_quoting. Qed.

Print Assumptions C04_export_layout.
Print Assumptions C04_decl_shape.
Print Assumptions C04_field_name_quoting.
