(* C04 — exported files are well-formed modules holding exactly the requested types.  Statements only.
   PROVED: the layout of every exported text; that the text of every well-formed syntax tree / declaration /
   export is derivable in an independent grammar of TypeScript's type syntax (Spec/TsGrammar.v: comments and
   white space as trivia, reserved words, string literals without escapes, `|` / `&` / `[]` precedence,
   object and mapped types, type aliases with defaulted parameters, `import type` and `export type`
   statements), where well-formed is a DECIDABLE check (Spec/TsSyn.v) evaluated on every corpus export on
   every run.  Besides, every real file is parsed by an independent reader (tools/tsparse.py). *)
From TsRs Require Import Base.Str Base.Outcome Gen.Tables Model.Case Model.TsAst Model.Rust Model.Docs Model.Gen Model.Path Model.Merge Model.MergeSpec Model.GenExport Spec.TsFree Spec.TsSem Spec.TsGrammar Spec.TsSyn Proofs.Export_shape_proofs Spec.GenClean Proofs.Grammar_proofs Proofs.Grammar_export_proofs Proofs.Gen_syn_proofs.
From Coq Require Import List.
Import ListNotations.

(* every exported text: the notice, the import statements, a blank line, the doc block, `export ` +
   the declaration of exactly the requested type, a final newline *)
Theorem C04_export_layout :
  forall is_upper is_alnum is_numeric R esm cwd fuel t dir s,
    export_string is_upper is_alnum is_numeric R esm cwd fuel t dir = Ok s ->
    exists id d args m dc,
      t = RNamed id args /\ Rust.lookup R id = Some d /\
      decl_of is_upper is_alnum is_numeric R fuel d = Ok dc /\
      s = NOTE ++ (render_imports m ++ [nl]) ++ (parse_docs (c_docs (attrs_of d)) ++ lit "export " ++ print_decl dc) ++ [nl].
Proof. intros ? ? ? R esm cwd. exact (export_layout _ _ _ R esm cwd). Qed.

Theorem C04_decl_shape :
  forall is_upper is_alnum is_numeric R fuel d dc,
    decl_of is_upper is_alnum is_numeric R fuel d = Ok dc ->
    print_decl dc = lit "type " ++ ts_ident d ++ print_params (d_params dc) ++ lit " = " ++ print (d_body dc) ++ lit ";".
Proof. intros ? ? ? R. exact (decl_shape _ _ _ R). Qed.

Theorem C04_field_name_quoting :
  forall is_alnum is_numeric n,
    (raw_name_to_ts_field is_alnum is_numeric n = n /\
     forallb (fun c => is_alnum c || (c =? 95)%N || (c =? 36)%N)%bool n = true /\
     match n with [] => True | c :: _ => is_numeric c = false end) \/
    raw_name_to_ts_field is_alnum is_numeric n = [34%N] ++ n ++ [34%N].
Proof. exact field_name_quoting. Qed.

(* every syntax tree passing the decidable check prints to a TypeScript type *)
Theorem C04_printed_type_parses :
  forall is_alnum is_numeric, classes_ok is_alnum is_numeric = true ->
  forall t, syn_ok is_alnum is_numeric t = true -> ty is_alnum is_numeric (print t).
Proof. exact print_in_grammar. Qed.

(* every declaration passing the check prints to a type alias declaration *)
Theorem C04_printed_decl_parses :
  forall is_alnum is_numeric, classes_ok is_alnum is_numeric = true ->
  forall d, decl_ok is_alnum is_numeric d = true -> alias is_alnum is_numeric (print_decl d).
Proof. exact decl_in_grammar. Qed.

(* every export whose pieces (import map, doc block, declaration) pass the check is a module: the notice (a
   line comment), `import type` statements, the doc block (a comment), `export type ..;`, a newline *)
Theorem C04_export_parses :
  forall is_upper is_alnum is_numeric R esm cwd fuel t dir s,
    classes_ok is_alnum is_numeric = true ->
    export_string is_upper is_alnum is_numeric R esm cwd fuel t dir = Ok s ->
    export_okb is_upper is_alnum is_numeric R esm cwd fuel t dir = true ->
    module is_alnum is_numeric s.
Proof. exact export_parses. Qed.

(* a file holding several declarations: the canonical file of a set of items (the file every history exporting
   them ends with: C05) is a module when every item's import groups pass the check and its block is a doc
   comment, `export `, a type alias *)
Theorem C04_merged_file_parses :
  forall is_alnum is_numeric items,
    Forall (fun i => forallb (group_okb is_alnum is_numeric) (it_imports i) = true /\
                     block_ok is_alnum is_numeric (it_block i)) items ->
    module is_alnum is_numeric (canonical_file items).
Proof. exact canonical_file_in_grammar. Qed.

(* the derive builds only checked trees from clean names: for EVERY environment whose definitions pass the boolean
   `def_cleanb` (Spec/GenClean.v: declarable type and parameter names; property names, variant names and tag keys that
   need no escaping; no `type = ".."` text; `flatten` of structs with fields of their own and of enums into hosts with a field of their own; every shape, generics with defaults, `as`, `inline`,
   `optional`, the four enum representations, `skip`, `untagged`, documentation of ANY content), every definition of it and
   every fuel: if decl() answers, the declaration passes the check and its documentation is one comment block .. *)
Theorem C04_generated_declaration_is_checked :
  forall is_upper is_alnum is_numeric R fuel id d dc,
    classes_ok is_alnum is_numeric = true ->
    clean_envb is_upper is_alnum is_numeric R = true ->
    Rust.lookup R id = Some d ->
    decl_of is_upper is_alnum is_numeric R fuel d = Ok dc ->
    decl_ok is_alnum is_numeric dc = true /\ docs_okb (d_docs dc) = true.
Proof. intros iu ia inu R fuel id d dc Hc HR. exact (decl_of_checked iu ia inu Hc R HR fuel id d dc). Qed.

(* .. hence its text is a type alias declaration of the grammar, without any per-case check *)
Theorem C04_generated_declaration_parses :
  forall is_upper is_alnum is_numeric R fuel id d dc,
    classes_ok is_alnum is_numeric = true ->
    clean_envb is_upper is_alnum is_numeric R = true ->
    Rust.lookup R id = Some d ->
    decl_of is_upper is_alnum is_numeric R fuel d = Ok dc ->
    alias is_alnum is_numeric (print_decl dc).
Proof.
  intros iu ia inu R fuel id d dc Hc HR Hl H. apply decl_in_grammar; [exact Hc|].
  exact (proj1 (decl_of_checked iu ia inu Hc R HR fuel id d dc Hl H)).
Qed.

(* the whole export, with no per-case check at all: for every clean environment (`export_to` paths included), every clean
   working directory and output directory, every type, fuel and import style: the text export_to_string returns — notice,
   `import type` block with the specifiers import_path computes, doc block, `export type` declaration — is a module of the
   grammar (the specifiers only rearrange characters of clean strings: Proofs/Path_clean_proofs.v) *)
Theorem C04_generated_export_parses :
  forall is_upper is_alnum is_numeric R esm cwd fuel t dir s,
    classes_ok is_alnum is_numeric = true ->
    clean_envb is_upper is_alnum is_numeric R = true ->
    forallb cleanb cwd = true -> cleanb dir = true ->
    export_string is_upper is_alnum is_numeric R esm cwd fuel t dir = Ok s ->
    module is_alnum is_numeric s.
Proof.
  intros iu ia inu R esm cwd fuel t dir s Hc HR Hw Hd H. apply (export_parses iu ia inu R esm cwd fuel t dir s Hc H).
  exact (export_checked iu ia inu Hc R HR esm cwd Hw fuel t dir s Hd H).
Qed.

(* .. and files shared by several types: the canonical file (the file every history exporting them ends with: C05, C06) of ANY
   set of exports of a clean environment is a module — imports united, declarations in key order, no per-case check *)
Theorem C04_merged_clean_exports_parse :
  forall is_upper is_alnum is_numeric R esm cwd items,
    classes_ok is_alnum is_numeric = true ->
    clean_envb is_upper is_alnum is_numeric R = true -> forallb cleanb cwd = true ->
    Forall (fun i => exists fuel t dir m docs dc, cleanb dir = true /\
              export_parts is_upper is_alnum is_numeric R esm cwd fuel t dir = Ok (m, docs, dc) /\
              it_imports i = m /\ it_block i = docs ++ lit "export " ++ print_decl dc) items ->
    module is_alnum is_numeric (canonical_file items).
Proof. intros iu ia inu R esm cwd items Hc HR Hw. exact (merged_exports_parse iu ia inu Hc R HR esm cwd Hw items). Qed.

(* the hypothesis is satisfiable: a generic struct with a quoted key, documentation holding a comment terminator, an
   inlined reference and an optional field, an internally tagged enum over it, a host flattening it; decl() answers for all *)
Module C04_clean.
Local Open Scope string_scope.
Definition l (s : String.string) : str := lit s.
Definition al := fun c => (is_ascii_upper c || is_ascii_lower c || is_ascii_digit c)%bool.
Definition fd (n : String.string) (t : rty) (inl : bool) (o : optional) (docs : list str) : field :=
  {| f_ident := l n; f_ty := t; f_serde_ty := t; f_rename := None; f_skip := false; f_inline := inl; f_flatten := false;
     f_optional := o; f_type := None; f_docs := docs; f_skip_none := false |}.
Definition ca (n : String.string) (ra : option rule) (ps : list (str * option rty)) : cattrs :=
  {| c_ident := l n; c_rename := None; c_rename_all := ra; c_tag := None; c_optional_fields := NotOptional; c_docs := [l "a */ b"%string];
     c_export_to := None; c_type := None; c_as := None; c_params := ps |}.
Definition Inner := DStruct (ca "Inner" (Some Kebab) [(l "T"%string, Some (RLeaf LBool))])
  (SNamed [fd "first_name" (RParam 0) false NotOptional [l "/ x"%string]; fd "n" (ROption (RLeaf LString)) false (Optional false) []]).
Definition Outer := DEnum (ca "Outer" None []) (Internal (l "kind"%string)) None
  [{| v_ident := l "A"%string; v_shape := SNamed [fd "inner" (RNamed (l "Inner"%string) [RLeaf LFloat]) true NotOptional []; fd "other" (RNamed (l "Inner"%string) [RLeaf LBool]) false NotOptional []]; v_rename := None;
      v_rename_all := None; v_skip := false; v_untagged := false; v_type := None; v_as := None |};
   {| v_ident := l "B"%string; v_shape := SUnit; v_rename := Some (l "b c"%string); v_rename_all := None; v_skip := false;
      v_untagged := false; v_type := None; v_as := None |}].
Definition Host := DStruct (ca "Host" None [])
  (SNamed [fd "z" (RLeaf LBool) false NotOptional [];
           {| f_ident := l "i"; f_ty := RWrap (RNamed (l "Inner") [RLeaf LString]); f_serde_ty := RLeaf LUnit; f_rename := None; f_skip := false;
              f_inline := false; f_flatten := true; f_optional := NotOptional; f_type := None; f_docs := []; f_skip_none := false |}]).
Definition Host2 := DStruct (ca "Host2" None [])
  (SNamed [fd "id" (RLeaf LString) false NotOptional [];
           {| f_ident := l "o"; f_ty := RNamed (l "Outer") []; f_serde_ty := RLeaf LUnit; f_rename := None; f_skip := false;
              f_inline := false; f_flatten := true; f_optional := NotOptional; f_type := None; f_docs := []; f_skip_none := false |}]).
Definition R : env := [(l "Inner"%string, Inner); (l "Outer"%string, Outer); (l "Host"%string, Host); (l "Host2"%string, Host2)].
End C04_clean.
Example C04_clean_nonvacuous :
  clean_envb is_ascii_upper C04_clean.al is_ascii_digit C04_clean.R = true /\
  omap print_decl (decl_of is_ascii_upper C04_clean.al is_ascii_digit C04_clean.R 5 C04_clean.Outer) =
    Ok (lit "type Outer = { ""kind"": ""A"", inner: { 
/**
 * / x
 */
""first-name"": number, n?: string, }, other: Inner<boolean>, } | { ""kind"": ""b c"" };"%string) /\
  (exists dc, decl_of is_ascii_upper C04_clean.al is_ascii_digit C04_clean.R 5 C04_clean.Inner = Ok dc) /\
  omap print_decl (decl_of is_ascii_upper C04_clean.al is_ascii_digit C04_clean.R 5 C04_clean.Host) =
    Ok (lit "type Host = { z: boolean, 
/**
 * / x
 */
""first-name"": string, n?: string, };"%string) /\
  (exists dc, decl_of is_ascii_upper C04_clean.al is_ascii_digit C04_clean.R 5 C04_clean.Host2 = Ok dc /\
              starts_with (lit "type Host2 = { id: string, } & ({ ""kind"": ""A"","%string) (print_decl dc) = true) /\
  export_string is_ascii_upper C04_clean.al is_ascii_digit C04_clean.R true [lit "w"%string] 5 (RNamed (lit "Outer"%string) []) (lit "./bindings"%string) =
    Ok (NOTE ++ lit "import type { Inner } from ""./Inner.js"";

/**
 *a *\/ b
 */
export type Outer = { ""kind"": ""A"", inner: { 
/**
 * / x
 */
""first-name"": number, n?: string, }, other: Inner<boolean>, } | { ""kind"": ""b c"" };
"%string).
Proof. split; [vm_compute; reflexivity|]. split; [vm_compute; reflexivity|]. split; [eexists; vm_compute; reflexivity|]. split; [vm_compute; reflexivity|]. split; [eexists; split; vm_compute; reflexivity|]. vm_compute. reflexivity. Qed.

(* the check is satisfiable by a declaration with documentation, quoted keys, a mapped type, a union of
   literals, a defaulted parameter; and it rejects a name holding a double quote and a reserved word *)
Example C04_syntax_check_nonvacuous :
  let al := fun c => (is_ascii_upper c || is_ascii_lower c || is_ascii_digit c)%bool in
  let hd := fun (k t : String.string) (q : bool) => {| p_docs := lit "/**
 * doc
 */
"%string; p_key := lit k; p_text := lit t; p_optional := q |} in
  let l := fun s : String.string => lit s in
  let body := TObj OStruct [(hd "a" "a" true, TUnion [TPrim (l "number"); TPrim (l "null")]);
                            (hd "b-c" """b-c""" false, TMapped (TPrim (l "string")) (TArray (TVar (l "T"))));
                            (hd "k" "k" false, TUnion [TLit (l "x"); TLit (l "y z")])]%string in
  classes_ok al is_ascii_digit = true /\
  decl_ok al is_ascii_digit {| d_docs := []; d_name := l "Foo"%string; d_params := [(l "T"%string, Some (TRef (l "Bar"%string) [TPrim (l "bigint"%string)]))]; d_body := body |} = true /\
  decl_ok al is_ascii_digit {| d_docs := []; d_name := l "break"%string; d_params := []; d_body := TPrim (l "null"%string) |} = false /\
  syn_ok al is_ascii_digit (TLit (l "a""b"%string)) = false.
Proof. repeat split; vm_compute; reflexivity. Qed.

Print Assumptions C04_export_layout.
Print Assumptions C04_generated_declaration_is_checked.
Print Assumptions C04_generated_declaration_parses.
Print Assumptions C04_generated_export_parses.
Print Assumptions C04_merged_clean_exports_parse.
Print Assumptions C04_printed_type_parses.
Print Assumptions C04_printed_decl_parses.
Print Assumptions C04_export_parses.
Print Assumptions C04_merged_file_parses.
Print Assumptions C04_decl_shape.
Print Assumptions C04_field_name_quoting.
