(* C14 — inline, flatten and `as` change presentation, never meaning.  Statements only. *)
From TsRs Require Import Base.Str Base.Outcome Gen.Tables Model.Case Model.TsAst Model.Rust Model.Docs Model.Gen Spec.TsFree Spec.TsSem Proofs.Gen_subst_proofs Proofs.Gen_decl_proofs Proofs.Sem_flatten_proofs Proofs.Merge_text_proofs Spec.TsGrammar Spec.TsSyn Spec.GenClean Proofs.Gen_syn_proofs.
From Coq Require Import List.
Import ListNotations.

(* the inline form of any type is the body of its own declaration instantiated at its arguments
   (parameters in name position -> the arguments' names, in flattened position -> their flattened
   forms); known class excluded by opt_def_ok: `optional` deciding `?` on a bare type parameter *)
Theorem C14_inline_is_instantiated_body :
  forall is_upper is_alnum is_numeric R fuel id d targs r r',
    (forall id d, lookup R id = Some d -> src_def d = true /\ opt_def_ok d = true) ->
    lookup R id = Some d ->
    NoDup (map fst (c_params (attrs_of d))) -> length targs = length (c_params (attrs_of d)) ->
    gen is_upper is_alnum is_numeric R fuel d (dummies (attrs_of d)) = Ok r ->
    gen is_upper is_alnum is_numeric R fuel d targs = Ok r' ->
    inst is_upper is_alnum is_numeric R (rho_of (map fst (c_params (attrs_of d))) targs) (fst r) (fst r').
Proof. intros ? ? ? R fuel id d targs r r' Henv. exact (decl_body_instantiates _ _ _ R Henv fuel id d targs r r'). Qed.

(* referring to a type by name denotes what its declaration body denotes at the arguments: an
   inlined field and a named field have the same inhabitants *)
Theorem C14_reference_denotes_body :
  forall E f n args d j,
    dlookup E n = Some d ->
    memberb E (S f) (TRef n args) j =
    memberb E f (tsubst (bind_params (d_params d) args) (bind_params (d_params d) args) (d_body d)) j.
Proof. exact ref_unfolds. Qed.

(* flattening denotes the object obtained by merging the flattened type's properties into the parent *)
Theorem C14_flatten_merges :
  forall E f s1 s2 s3 ps qs l,
    memberb E (S (S (S f))) (TInter [TObj s1 ps; TObj s2 qs]) (JObj l) =
    memberb E (S (S (S f))) (TObj s3 (ps ++ qs)) (JObj l).
Proof. exact inter_is_merge. Qed.

Theorem C14_flatten_enum_distributes :
  forall E f s1 s2 s3 ps qs rs l,
    memberb E (S (S (S (S (S f))))) (TInter [TObj s1 ps; TParen (TUnion [TObj s2 qs; TObj s3 rs])]) (JObj l) =
    (alt_member (memberb E (S (S (S (S f))))) (ps ++ qs, []) l || alt_member (memberb E (S (S (S (S f))))) (ps ++ rs, []) l)%bool.
Proof. exact inter_union_distributes. Qed.

(* decl_concrete() is `type N = inline();` *)
Theorem C14_decl_concrete :
  forall is_upper is_alnum is_numeric R fuel d args r,
    gen is_upper is_alnum is_numeric R fuel d args = Ok r ->
    decl_concrete_text is_upper is_alnum is_numeric R fuel d args =
      Ok (lit "type " ++ ts_ident d ++ lit " = " ++ print (fst r) ++ lit ";").
Proof. intros ? ? ? R fuel d args r H. unfold decl_concrete_text. rewrite H. reflexivity. Qed.

(* the text named.rs builds for `{ own fields } & flattened & ..` is the text of the structural merge: object
   literals that meet are concatenated, everything else is joined with ` & ` — for every list of operands that are
   non-empty struct objects or whose text neither begins with `{ ` nor ends with ` }` (parenthesised unions,
   references, type parameters) *)
Theorem C14_merged_text_is_structural_merge :
  forall l, l <> [] -> Forall okop l -> print (TMerged (TInter l)) = print (inter_of (merge_adjacent l)).
Proof. exact glue_is_structural_merge. Qed.

(* for every clean environment (Spec/GenClean.v; flatten of plain structs included), every definition, all type arguments
   without unusable parameter names and every fuel: the text of inline() IS the text of its structural meaning — the textual
   flatten rewrites never change what is denoted *)
Theorem C14_generated_text_is_structural :
  forall is_upper is_alnum is_numeric R fuel id d args r,
    classes_ok is_alnum is_numeric = true ->
    clean_envb is_upper is_alnum is_numeric R = true ->
    lookup R id = Some d -> forallb (rty_clean is_alnum is_numeric) args = true ->
    gen is_upper is_alnum is_numeric R fuel d args = Ok r ->
    print (norm (fst r)) = print (fst r).
Proof.
  intros iu ia inu R fuel id d args r Hc HR Hl Ha H.
  pose proof (gen_norm_ok iu ia inu Hc R HR fuel id d args r Hl Ha H) as Hn. unfold norm_ok in Hn. apply str_eqb_eq in Hn. exact Hn.
Qed.

Example C14_merged_text_nonvacuous :
  let h := fun k : String.string => {| p_docs := []; p_key := lit k; p_text := lit k; p_optional := false |} in
  let l := [TObj OStruct [(h "a", TPrim (lit "number"))]; TObj OStruct [(h "b", TObj OVariant [(h "k", TLit (lit "A"))])];
            TParen (TUnion [TObj OStruct [(h "x", TPrim (lit "null"))]; TPrim (lit "null")]); TObj OStruct [(h "c", TRef (lit "T") [])]]%string in
  Forall okop l /\
  print (TMerged (TInter l)) = lit "{ a: number, b: { k: ""A"" }, } & ({ x: null, } | null) & { c: T, }"%string.
Proof. split; [repeat constructor; cbn; try discriminate; try (repeat split; [reflexivity | reflexivity | cbn; repeat constructor]) | vm_compute; reflexivity]. Qed.

Print Assumptions C14_merged_text_is_structural_merge.
Print Assumptions C14_generated_text_is_structural.
Print Assumptions C14_inline_is_instantiated_body.
Print Assumptions C14_reference_denotes_body.
Print Assumptions C14_flatten_merges.
Print Assumptions C14_flatten_enum_distributes.
Print Assumptions C14_decl_concrete.
