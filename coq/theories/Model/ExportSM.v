(* The export state machine: file system x registry (EXPORT_PATHS), and the entry points
   TS::export / export_all / export_all_to with recursive_export, export_into, export_to,
   export_and_merge (ts-rs/src/lib.rs, ts-rs/src/export.rs).  Definitions only.

   The file system and the environment are MODELLED (not verified): absolute normalised paths are
   lists of names below the root; the operations fail exactly where the property lists obstacles. *)
From TsRs Require Import Base.Str Base.Outcome Gen.Tables Model.Path Model.Merge Model.Imports.
From TsRs Require Import Spec.PathOracle.

Inductive node := File (content : str) | Dir.
Definition apath := list str.
Definition fsys := list (apath * node).

Fixpoint fs_get (fs : fsys) (p : apath) : option node :=
  match fs with
  | [] => None
  | (q, n) :: r => if list_str_eqb p q then Some n else fs_get r p
  end.

Fixpoint fs_remove (fs : fsys) (p : apath) : fsys :=
  match fs with
  | [] => []
  | (q, n) :: r => if list_str_eqb p q then fs_remove r p else (q, n) :: fs_remove r p
  end.

Definition fs_set (fs : fsys) (p : apath) (n : node) : fsys := (p, n) :: fs_remove fs p.

(* the root directory always exists *)
Definition fs_lookup (fs : fsys) (p : apath) : option node :=
  match p with [] => Some Dir | _ => fs_get fs p end.

Definition io_error : str := lit "Io".

(* std::fs::create_dir_all(dir): every prefix must be (or become) a directory *)
Fixpoint create_dirs (fs : fsys) (done todo : apath) : outcome fsys :=
  match todo with
  | [] => Ok fs
  | n :: r =>
      let d := done ++ [n] in
      match fs_lookup fs d with
      | Some (File _) => Err io_error
      | Some Dir => create_dirs fs d r
      | None => create_dirs (fs_set fs d Dir) d r
      end
  end.
Definition create_dir_all (fs : fsys) (dir : apath) : outcome fsys := create_dirs fs [] dir.

Definition parent_of (p : apath) : option apath :=
  match rev p with [] => None | _ :: r => Some (rev r) end.

Definition parent_is_dir (fs : fsys) (p : apath) : bool :=
  match parent_of p with
  | Some d => match fs_lookup fs d with Some Dir => true | _ => false end
  | None => false
  end.

(* File::create(path) + write_all: truncates; fails on a directory or a missing/non-directory parent *)
Definition file_create (fs : fsys) (p : apath) (content : str) : outcome fsys :=
  match fs_lookup fs p with
  | Some Dir => Err io_error
  | _ => if parent_is_dir fs p then Ok (fs_set fs p (File content)) else Err io_error
  end.

(* OpenOptions::new().read(true).write(true).open(path) + read_to_string *)
Definition file_open_read (fs : fsys) (p : apath) : outcome str :=
  match fs_lookup fs p with
  | Some (File c) => Ok c
  | _ => Err io_error
  end.

Record state := {
  s_fs : fsys;
  s_reg : list (apath * list str);     (* EXPORT_PATHS: file -> names written by this process *)
  s_poisoned : bool                    (* a panic while the registry mutex was held *)
}.

Record config := {
  c_esm : bool;
  c_cwd : list str;                    (* std::env::current_dir() *)
  c_env : option str                   (* TS_RS_EXPORT_DIR *)
}.

Definition default_out_dir (c : config) : str :=
  match c_env c with Some d => d | None => DEFAULT_EXPORT_DIR end.

Fixpoint reg_get (reg : list (apath * list str)) (p : apath) : option (list str) :=
  match reg with
  | [] => None
  | (q, ns) :: r => if list_str_eqb p q then Some ns else reg_get r p
  end.
Fixpoint reg_add (reg : list (apath * list str)) (p : apath) (name : str) : list (apath * list str) :=
  match reg with
  | [] => [(p, [name])]
  | (q, ns) :: r => if list_str_eqb p q then (q, name :: ns) :: r else (q, ns) :: reg_add r p name
  end.

(* result of one call: the new state and Ok / Err / Panic *)
Definition result := (state * outcome unit)%type.

(* export_and_merge(path, type_name, generated_type) *)
Definition export_and_merge (st : state) (p : apath) (name text : str) : result :=
  if s_poisoned st then (st, Panic (lit "PoisonError"))
  else match reg_get (s_reg st) p with
  | None =>
      match file_create (s_fs st) p text with
      | Ok fs' => ({| s_fs := fs'; s_reg := reg_add (s_reg st) p name; s_poisoned := false |}, Ok tt)
      | Err e => (st, Err e)
      | Panic e => (st, Panic e)
      end
  | Some names =>
      if existsb (str_eqb name) names then (st, Ok tt)
      else match file_open_read (s_fs st) p with
      | Ok old =>
          match merge_into_file old text with
          | Ok c => ({| s_fs := fs_set (s_fs st) p (File c); s_reg := reg_add (s_reg st) p name; s_poisoned := false |}, Ok tt)
          | Err e => (st, Err e)
          | Panic e => ({| s_fs := s_fs st; s_reg := s_reg st; s_poisoned := true |}, Panic e)
          end
      | Err e => (st, Err e)
      | Panic e => (st, Panic e)
      end
  end.

Definition names_of_abs (cs : list comp) : apath := match names_of cs with Some l => l | None => [] end.

Section WithUniverse.
Variable cfg : config.
Variable U : universe.

(* export_to::<T, _>(path) *)
Definition export_to (st : state) (i : nat) (path : str) : result :=
  match absolute (c_cwd cfg) path with
  | Err e => (st, Err err_cannot_export)
  | Panic e => (st, Panic e)
  | Ok cs =>
      let p := names_of_abs cs in
      match export_to_string (c_esm cfg) (c_cwd cfg) U i (default_out_dir cfg) with
      | Err e => (st, Err e)
      | Panic e => (st, Panic e)
      | Ok buffer =>
          let dirs := match parent_of p with
                      | Some d => create_dir_all (s_fs st) d
                      | None => Ok (s_fs st)
                      end in
          match dirs with
          | Err e => (st, Err e)
          | Panic e => (st, Panic e)
          | Ok fs1 =>
              (* directories created before a later failure stay (create_dir_all is not undone) *)
              let st1 := {| s_fs := fs1; s_reg := s_reg st; s_poisoned := s_poisoned st |} in
              export_and_merge st1 p (t_ident (tget U i)) buffer
          end
      end
  end.

(* export_into::<T>(out_dir) *)
Definition export_into (st : state) (i : nat) (out_dir : str) : result :=
  match t_out (tget U i) with
  | None => (st, Err err_cannot_export)
  | Some op =>
      let path := path_join out_dir op in
      match absolute (c_cwd cfg) path with
      | Err e => (st, Err err_cannot_export)
      | Panic e => (st, Panic e)
      | Ok cs => export_to st i (render cs)
      end
  end.

(* recursive_export::export_recursive with the `seen` set; fuel bounds the recursion depth (the
   seen set strictly grows, so |U| + 1 suffices; running out of fuel is reported as a panic) *)
Fixpoint export_recursive (fuel : nat) (st : state) (seen : list nat) (i : nat) (out_dir : str)
  : state * list nat * outcome unit :=
  match fuel with
  | O => (st, seen, Panic (lit "out of fuel"))
  | S f =>
      if existsb (Nat.eqb i) seen then (st, seen, Ok tt)
      else
        let seen := i :: seen in
        match export_into st i out_dir with
        | (st1, Ok _) =>
            fold_left (fun (acc : state * list nat * outcome unit) (d : nat) =>
                         let '(s, sn, r) := acc in
                         match r with
                         | Ok _ =>
                             match t_out (tget U d) with
                             | None => acc
                             | Some _ => export_recursive f s sn d out_dir
                             end
                         | _ => acc
                         end)
                      (t_visits (tget U i)) (st1, seen, Ok tt)
        | (st1, r) => (st1, seen, r)
        end
  end.

Definition export_all_into (st : state) (i : nat) (out_dir : str) : result :=
  let '(s, _, r) := export_recursive (S (length U)) st [] i out_dir in (s, r).

Inductive op :=
| Export (i : nat)                         (* T::export() *)
| ExportAll (i : nat)                      (* T::export_all() *)
| ExportAllTo (i : nat) (dir : str)        (* T::export_all_to(dir) *)
| NewProcess                               (* the registry is per process *)
| MkDir (p : apath)                        (* environment: an obstacle / other actors *)
| MkFile (p : apath) (content : str)
| Remove (p : apath).

Definition is_prefix_path (a b : apath) : bool := is_prefix_of a b.

Definition step (st : state) (o : op) : result :=
  match o with
  | Export i =>
      match t_out (tget U i) with
      | None => (st, Err err_cannot_export)
      | Some op => export_to st i (path_join (default_out_dir cfg) op)
      end
  | ExportAll i => export_all_into st i (default_out_dir cfg)
  | ExportAllTo i dir => export_all_into st i dir
  | NewProcess => ({| s_fs := s_fs st; s_reg := []; s_poisoned := false |}, Ok tt)
  | MkDir p => ({| s_fs := fs_set (s_fs st) p Dir; s_reg := s_reg st; s_poisoned := s_poisoned st |}, Ok tt)
  | MkFile p c => ({| s_fs := fs_set (s_fs st) p (File c); s_reg := s_reg st; s_poisoned := s_poisoned st |}, Ok tt)
  | Remove p =>
      ({| s_fs := filter (fun e => negb (is_prefix_path p (fst e))) (s_fs st);
          s_reg := s_reg st; s_poisoned := s_poisoned st |}, Ok tt)
  end.

(* a history: every step is attempted, results are collected *)
Fixpoint run (st : state) (h : list op) : state * list (outcome unit) :=
  match h with
  | [] => (st, [])
  | o :: r => let '(st1, res) := step st o in
              let '(st2, rs) := run st1 r in (st2, res :: rs)
  end.

End WithUniverse.

Definition init_state (fs : fsys) : state := {| s_fs := fs; s_reg := []; s_poisoned := false |}.

(* observable tree: regular files only, as (path, content), sorted by the caller *)
Definition files_of (fs : fsys) : list (apath * str) :=
  flat_map (fun e => match snd e with File c => [(fst e, c)] | Dir => [] end) fs.
