(* Paths: Rust's `Path::components`, `PathBuf::join`, `Path::parent`, `Path::file_name` (Unix
   rules) and ts-rs' `export/path.rs` (`absolute`, `diff_paths`) and `export.rs` (`import_path`,
   the same-file test of `generate_imports`).  Definitions only; proofs in Proofs/Path_proofs.v. *)
From TsRs Require Import Base.Str Base.Outcome.

Inductive comp := Root | Cur | Parent | Normal (name : str).

Definition slash : char := 47.
Definition dot : char := 46.
Definition backslash : char := 92.
Definition s_dot : str := [dot].
Definition s_dotdot : str := [dot; dot].
Definition s_ts : str := lit ".ts".
Definition s_js : str := lit ".js".

Definition comp_eqb (a b : comp) : bool :=
  match a, b with
  | Root, Root | Cur, Cur | Parent, Parent => true
  | Normal x, Normal y => str_eqb x y
  | _, _ => false
  end.

(* pieces between '/' characters; always at least one piece *)
Fixpoint split_slash (s : str) : list str :=
  match s with
  | [] => [[]]
  | c :: r =>
      if c =? slash then [] :: split_slash r
      else match split_slash r with
           | p :: ps => (c :: p) :: ps
           | [] => [[c]]
           end
  end.

(* one piece -> zero or one component; `.` survives only as the very first piece of a relative path *)
Definition comp_of (leading : bool) (piece : str) : list comp :=
  if str_eqb piece [] then []
  else if str_eqb piece s_dot then (if leading then [Cur] else [])
  else if str_eqb piece s_dotdot then [Parent]
  else [Normal piece].

(* std::path::Path::components (Unix) *)
Definition components (s : str) : list comp :=
  match s with
  | [] => []
  | c :: r =>
      if c =? slash then Root :: flat_map (comp_of false) (split_slash r)
      else match split_slash s with
           | first :: rest => comp_of true first ++ flat_map (comp_of false) rest
           | [] => []
           end
  end.

Definition is_absolute (s : str) : bool := match s with c :: _ => c =? slash | [] => false end.

(* PathBuf::join / push on the string representation *)
Definition path_join (base p : str) : str :=
  if is_absolute p then p
  else match rev base with
       | [] => p
       | c :: _ => if c =? slash then base ++ p else base ++ [slash] ++ p
       end.

(* Path::parent, as components: None when the path is empty or ends in the root *)
Definition parent_comps (cs : list comp) : option (list comp) :=
  match rev cs with
  | (Normal _ | Cur | Parent) :: r => Some (rev r)
  | _ => None
  end.

(* Path::file_name: the last component if it is a normal one *)
Definition file_name (cs : list comp) : option str :=
  match rev cs with Normal n :: _ => Some n | _ => None end.

Definition comp_text (c : comp) : str :=
  match c with Root => [slash] | Cur => s_dot | Parent => s_dotdot | Normal n => n end.

(* PathBuf collected from components (`iter().collect()`), rendered as a string *)
Definition render (cs : list comp) : str :=
  match cs with
  | Root :: r => slash :: join [slash] (map comp_text r)
  | _ => join [slash] (map comp_text cs)
  end.

Definition err_invalid_path : str :=
  lit "The path provided with `#[ts(export_to = "".."")]` is not valid".

(* export/path.rs: absolute.  `cwd` is the list of directory names of the (absolute, normalised)
   current directory.  `..` pops a normal component only; anything else is an error. *)
Fixpoint absolute_loop (out : list comp) (cs : list comp) : outcome (list comp) :=
  match cs with
  | [] => Ok out
  | Cur :: r => absolute_loop out r
  | Parent :: r =>
      match rev out with
      | Normal _ :: o => absolute_loop (rev o) r
      | _ => Err err_invalid_path
      end
  | c :: r => absolute_loop (out ++ [c]) r
  end.

(* components of `cwd.join(path)` *)
Definition joined_comps (cwd : list str) (cs : list comp) : list comp :=
  match cs with
  | Root :: _ => cs
  | Cur :: r => Root :: map Normal cwd ++ r
  | _ => Root :: map Normal cwd ++ cs
  end.

Definition absolute_comps (cwd : list str) (cs : list comp) : outcome (list comp) :=
  match absolute_loop [] (joined_comps cwd cs) with
  | Ok [] => Ok [Cur]
  | o => o
  end.

Definition absolute (cwd : list str) (p : str) : outcome (list comp) := absolute_comps cwd (components p).

(* export/path.rs: diff_paths, after both arguments went through `absolute` *)
Fixpoint diff_comps (a b : list comp) : list comp :=
  match a, b with
  | [], [] => []
  | _ :: _, [] => a
  | [], _ :: b' => Parent :: diff_comps [] b'
  | x :: a', y :: b' =>
      if comp_eqb x y then diff_comps a' b'
      else Parent :: repeat Parent (length b') ++ x :: a'
  end.

Definition diff_paths (cwd : list str) (path base : list comp) : outcome (list comp) :=
  bind (absolute_comps cwd path) (fun p =>
  bind (absolute_comps cwd base) (fun b => Ok (diff_comps p b))).

(* export.rs: import_path(from, import) *)
Definition import_path (esm : bool) (cwd : list str) (from import : str) : outcome str :=
  match parent_comps (components from) with
  | None => Panic (lit "called `Option::unwrap()` on a `None` value")
  | Some par =>
      bind (diff_paths cwd (components import) par) (fun rel =>
      let s := render rel in
      let s := match rel with Normal _ :: _ => lit "./" ++ s | _ => s end in
      let s := trim_end_matches s_ts s in
      Ok (if esm then s ++ s_js else s))
  end.

(* export.rs: the same-file test inside generate_imports *)
Definition is_same_file (from : str) (rel_path : str) : bool :=
  match file_name (components from) with
  | Some n => str_eqb (lit "./" ++ trim_end_matches s_ts n) (trim_end_matches s_js rel_path)
  | None => false
  end.

(* ---------------------------------------------------------------------------------------------
   Specification side: how a TypeScript compiler resolves a relative module specifier against the
   directory of the importing file.  Written from the module-resolution rules, not from the code. *)

(* walk a relative specifier from a directory (list of names below the root) *)
Fixpoint walk (dir : list str) (pieces : list str) : option (list str) :=
  match pieces with
  | [] => Some dir
  | p :: r =>
      if str_eqb p [] || str_eqb p s_dot then walk dir r
      else if str_eqb p s_dotdot then
        match rev dir with
        | _ :: d => walk (rev d) r
        | [] => None
        end
      else walk (dir ++ [p]) r
  end.

(* the file a specifier denotes: `<spec>.ts`, or with `.js` replaced by `.ts` under ES modules *)
Definition resolve (esm : bool) (dir : list str) (spec : str) : option (list str) :=
  let target := if esm then match strip_suffix s_js spec with Some s => Some (s ++ s_ts) | None => None end
                else Some (spec ++ s_ts) in
  match target with
  | Some t => walk dir (split_slash t)
  | None => None
  end.

Definition is_relative_spec (s : str) : bool := starts_with (lit "./") s || starts_with (lit "../") s.

(* a name that can be a path component *)
Definition name_ok (n : str) : bool :=
  negb (str_eqb n []) && negb (str_eqb n s_dot) && negb (str_eqb n s_dotdot) &&
  negb (existsb (N.eqb slash) n).
