(* ts-rs/src/export.rs: export_to_string / generate_imports / generate_decl, for the types of the
   derive model (Model/Gen.v).  Definitions only. *)
From TsRs Require Import Base.Str Base.Outcome Gen.Tables Model.Case Model.TsAst Model.Rust Model.Docs
  Model.Gen Model.Path Model.Merge.

Definition leaf_eqb (a b : leaf) : bool :=
  match a, b with
  | LInt x l h, LInt y l' h' => Bool.eqb x y && (l =? l')%Z && (h =? h')%Z
  | LFloat, LFloat | LBool, LBool | LString, LString | LChar, LChar | LUnit, LUnit => true
  | _, _ => false
  end.

(* TypeId equality of two closed Rust types of the fragment *)
Fixpoint rty_eqb (a b : rty) : bool :=
  let fix list_eqb (l m : list rty) : bool :=
    match l, m with
    | [], [] => true
    | x :: l', y :: m' => rty_eqb x y && list_eqb l' m'
    | _, _ => false
    end in
  match a, b with
  | RLeaf x, RLeaf y => leaf_eqb x y
  | ROption x, ROption y | RVec x, RVec y | RWrap x, RWrap y | RRange x, RRange y => rty_eqb x y
  | RArray n x, RArray m y => Nat.eqb n m && rty_eqb x y
  | RTuple l, RTuple m => list_eqb l m
  | RMap k v, RMap k' v' | RResult k v, RResult k' v' => rty_eqb k k' && rty_eqb v v'
  | RNamed i l, RNamed j m => str_eqb i j && list_eqb l m
  | RParam i, RParam j => Nat.eqb i j
  | RDummy n, RDummy m => str_eqb n m
  | _, _ => false
  end.

Section Export.
Variable is_upper is_alnum is_numeric : char -> bool.
Variable R : env.
Variable esm : bool.
Variable cwd : list str.

Definition dep := (rty * str * str)%type.   (* type, ts_name, output_path *)

(* BTreeMap<&String, &Dependency>::collect : sorted by name, the LAST of equal names wins *)
Fixpoint dep_insert (e : dep) (m : list dep) : list dep :=
  match m with
  | [] => [e]
  | x :: r => match str_compare (snd (fst e)) (snd (fst x)) with
              | Lt => e :: m
              | Eq => e :: r
              | Gt => x :: dep_insert e r
              end
  end.

Definition err_cannot_export : str := lit "CannotBeExported".

Definition import_groups (t : rty) (out_dir : str) (deps : list dep) : outcome imports_map :=
  match out_path R t with
  | None => Err err_cannot_export
  | Some op =>
      let path := path_join out_dir op in
      let deps := filter (fun e => negb (rty_eqb (fst (fst e)) t)) deps in
      let dedup := fold_left (fun m e => dep_insert e m) deps [] in
      let step (acc : outcome imports_map) (e : dep) : outcome imports_map :=
        bind acc (fun m =>
        bind (import_path esm cwd path (path_join out_dir (snd e))) (fun rel =>
        if is_same_file path rel then Ok m else Ok (map_insert rel [snd (fst e)] m))) in
      fold_left step dedup (Ok [])
  end.

(* generate_imports::<T>(out, out_dir) *)
Definition gen_imports (fuel : nat) (t : rty) (out_dir : str) : outcome str :=
  match out_path R t with
  | None => Err err_cannot_export
  | Some _ =>
      bind (dependencies_of R fuel t) (fun deps =>
      bind (import_groups t out_dir deps) (fun m => Ok (render_imports m ++ [nl])))
  end.

(* generate_decl::<T> *)
Definition gen_decl (fuel : nat) (t : rty) : outcome str :=
  match t with
  | RNamed id _ =>
      match lookup R id with
      | None => Panic (lit "unknown type")
      | Some d =>
          bind (decl_text is_upper is_alnum is_numeric R fuel d) (fun s =>
          Ok (parse_docs (c_docs (attrs_of d)) ++ lit "export " ++ s))
      end
  | _ => Panic (lit "cannot be declared")
  end.

(* export_to_string::<T>() ; `default_dir` = default_out_dir() *)
Definition export_string (fuel : nat) (t : rty) (default_dir : str) : outcome str :=
  bind (gen_imports fuel (without_generics t) default_dir) (fun imports =>
  bind (gen_decl fuel t) (fun decl =>
  Ok (NOTE ++ imports ++ decl ++ [nl]))).
End Export.
