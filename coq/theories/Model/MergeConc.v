(* Concurrent exports to one file: `export_and_merge` split into micro-steps under the registry
   mutex.  A schedule is a list of thread ids; thread k exports item k.  Definitions only.
   (That the real critical section has this shape is validated on recorded traces of the real
   code by the C05 check, through the cfg(ts_rs_verif) yield points; it is not proved here.) *)
From TsRs Require Import Base.Str Base.Outcome Gen.Tables Model.Merge Model.MergeSpec.

Inductive tstage :=
| TIdle                                   (* before `lock()` *)
| TLocked                                 (* holds the mutex; nothing read yet *)
| TDecided (newc : option str)            (* looked up the registry, (read and merged | rendered) :
                                             Some c = content to write, None = already present *)
| TWritten                                (* file written, name not yet inserted *)
| TInserted                               (* name inserted, mutex still held *)
| TDone (ok : bool).                      (* mutex released; ok = false: the export failed *)

Record cstate := {
  c_shared : fstate;                      (* file content + registry entry *)
  c_lock : option nat;                    (* which thread holds the mutex *)
  c_threads : list tstage
}.

Definition set_nth {A} (n : nat) (x : A) (l : list A) : list A :=
  firstn n l ++ match skipn n l with [] => [] | _ :: r => x :: r end.

(* one micro-step of thread k (exporting `items[k]`); a thread that cannot move (mutex taken, or
   finished) leaves the state unchanged *)
Definition micro_step (items : list item) (st : cstate) (k : nat) : cstate :=
  match nth_error items k, nth_error (c_threads st) k with
  | Some i, Some stage =>
      let upd sh lk stg := {| c_shared := sh; c_lock := lk; c_threads := set_nth k stg (c_threads st) |} in
      match stage with
      | TIdle =>
          match c_lock st with
          | None => upd (c_shared st) (Some k) TLocked
          | Some _ => st                              (* blocked *)
          end
      | TLocked =>
          let sh := c_shared st in
          match f_content sh with
          | None => upd sh (c_lock st) (TDecided (Some (item_text i)))
          | Some old =>
              if existsb (str_eqb (it_ident i)) (f_names sh) then upd sh (c_lock st) (TDecided None)
              else match merge_into_file old (item_text i) with
                   | Ok c => upd sh (c_lock st) (TDecided (Some c))
                   | _ => upd sh None (TDone false)   (* error / panic: released without writing *)
                   end
          end
      | TDecided None => upd (c_shared st) (c_lock st) TInserted
      | TDecided (Some c) =>
          upd {| f_content := Some c; f_names := f_names (c_shared st) |} (c_lock st) TWritten
      | TWritten =>
          upd {| f_content := f_content (c_shared st);
                 f_names := it_ident i :: f_names (c_shared st) |} (c_lock st) TInserted
      | TInserted => upd (c_shared st) None (TDone true)
      | TDone _ => st
      end
  | _, _ => st
  end.

Definition c_init (n : nat) : cstate :=
  {| c_shared := f_init; c_lock := None; c_threads := repeat TIdle n |}.

Definition run_schedule (items : list item) (sched : list nat) : cstate :=
  fold_left (micro_step items) sched (c_init (length items)).

Definition all_done (st : cstate) : bool :=
  forallb (fun s => match s with TDone true => true | _ => false end) (c_threads st).

(* the order in which threads took the mutex: thread k appears when its TIdle -> TLocked step ran *)
Fixpoint lock_order_from (items : list item) (st : cstate) (sched : list nat) : list nat :=
  match sched with
  | [] => []
  | k :: r =>
      let st' := micro_step items st k in
      match nth_error (c_threads st) k, c_lock st with
      | Some TIdle, None => (if Nat.ltb k (length items) then [k] else []) ++ lock_order_from items st' r
      | _, _ => lock_order_from items st' r
      end
  end.
Definition lock_order (items : list item) (sched : list nat) : list nat :=
  lock_order_from items (c_init (length items)) sched.
