(* Attribute parsing of the derive, at token level: the two arms of impl_parse! (utils.rs), the
   handler functions of attr/mod.rs, skip_until_next_comma, parse_attrs / parse_serde_attrs and the
   from_attrs of the four positions (struct, enum, variant, field).  The key tables and the text of
   every handler are NOT written here: they are regenerated from the source on every run
   (Gen/Tables.v) and classified by `handler_of`; an unrecognised handler text makes the table
   ill-formed (`tables_ok = false`), which fails the check.  Definitions only. *)
From TsRs Require Import Base.Str Base.Outcome Gen.Tables.

Inductive tok :=
| KId (s : str)            (* identifier (any, keywords included: parse_any) *)
| KEq                      (* = *)
| KComma                   (* , *)
| KStr (s : str)           (* string literal, by value *)
| KGroup (l : list tok)    (* ( .. ) *)
| KOther (s : str).        (* any other single token, by text *)

Inductive hkind :=
| HFlag            (* out.f = true *)
| HStr             (* parse_assign_str *)
| HExpr            (* parse_assign_expr *)
| HRule            (* parse_assign_inflection *)
| HFromStr         (* parse_assign_from_str *)
| HBound           (* parse_bound *)
| HConcrete        (* parse_concrete *)
| HOptional        (* parse_optional *)
| HIgnoreAssign    (* `default` / `deny_unknown_fields`: an optional `= "str"` is consumed, nothing is stored *)
| HIgnoreAssign2   (* the same, but `=` is consumed twice (parse error whenever `=` is present) *)
| HWith.           (* parse_assign_str; out.using_serde_with = true *)

Definition hkind_eqb (a b : hkind) : bool :=
  match a, b with
  | HFlag, HFlag | HStr, HStr | HExpr, HExpr | HRule, HRule | HFromStr, HFromStr | HBound, HBound
  | HConcrete, HConcrete | HOptional, HOptional | HIgnoreAssign, HIgnoreAssign | HIgnoreAssign2, HIgnoreAssign2
  | HWith, HWith => true
  | _, _ => false
  end.

Open Scope string_scope.
Open Scope list_scope.

(* classification of a handler by its (normalised) source text: Some (field it assigns, kind) *)
Definition rhs_kind (rhs : str) : option hkind :=
  if str_eqb rhs (lit "true") then Some HFlag
  else if str_eqb rhs (lit "Some(parse_assign_str(input)?)") then Some HStr
  else if str_eqb rhs (lit "Some(parse_assign_expr(input)?)") then Some HExpr
  else if str_eqb rhs (lit "Some(parse_assign_inflection(input)?)") then Some HRule
  else if str_eqb rhs (lit "Some(parse_assign_from_str(input)?)") then Some HFromStr
  else if str_eqb rhs (lit "Some(parse_bound(input)?)") then Some HBound
  else if str_eqb rhs (lit "parse_concrete(input)?") then Some HConcrete
  else if str_eqb rhs (lit "parse_optional(input)?") then Some HOptional
  else None.

Definition handler_of (text : str) : option (str * hkind) :=
  if str_eqb text (lit "{ use syn::Token; if input.peek(Token![=]) { parse_assign_str(input)?; } }") then Some ([], HIgnoreAssign)
  else if str_eqb text (lit "{ use syn::Token; if input.peek(Token![=]) { input.parse::<Token![=]>()?; parse_assign_str(input)?; } }") then Some ([], HIgnoreAssign2)
  else if str_eqb text (lit "{ parse_assign_str(input)?; out.using_serde_with = true; }") then Some (lit "using_serde_with", HWith)
  else match strip_prefix (lit "out.") text with
       | Some r => match split_once (lit " = ") r with
                   | Some (field, rhs) => option_map (fun k => (field, k)) (rhs_kind rhs)
                   | None => None
                   end
       | None => None
       end.

Inductive position := PStruct | PEnum | PVariant | PField.

Definition ts_table (p : position) : list (str * str) :=
  match p with PStruct => keys_Struct_ts | PEnum => keys_Enum_ts | PVariant => keys_Variant_ts | PField => keys_Field_ts end.
Definition serde_table (p : position) : list (str * str) :=
  match p with PStruct => keys_Struct_serde | PEnum => keys_Enum_serde | PVariant => keys_Variant_serde | PField => keys_Field_serde end.
Definition all_positions : list position := [PStruct; PEnum; PVariant; PField].

Fixpoint tlookup (k : str) (t : list (str * str)) : option str :=
  match t with
  | [] => None
  | (x, h) :: r => if str_eqb x k then Some h else tlookup k r
  end.

Definition table_ok (t : list (str * str)) : bool :=
  forallb (fun e => match handler_of (snd e) with Some _ => true | None => false end) t.
Definition tables_ok : bool := forallb (fun p => table_ok (ts_table p) && table_ok (serde_table p)) all_positions.

(* parsed attribute values *)
Inductive aval :=
| AFlag
| AStr (s : str)
| AToks (l : list tok)
| AOpt (nullable : bool).

Definition parsed := list (str * aval).    (* field -> value; the FIRST entry of a field is the effective one *)

Definition valid_rule (s : str) : bool :=
  existsb (str_eqb s) [lit "lowercase"; lit "UPPERCASE"; lit "camelCase"; lit "snake_case"; lit "PascalCase";
                       lit "SCREAMING_SNAKE_CASE"; lit "kebab-case"; lit "SCREAMING-KEBAB-CASE"].

Definition is_comma (t : tok) : bool := match t with KComma => true | _ => false end.

(* tokens up to (excluding) the next top-level comma *)
Fixpoint until_comma (l : list tok) : list tok * list tok :=
  match l with
  | [] => ([], [])
  | KComma :: _ => ([], l)
  | t :: r => let '(a, b) := until_comma r in (t :: a, b)
  end.

Definition e_expected_str : str := lit "expected string".
Definition e_eq : str := lit "expected `=`".

(* one handler: consumes its argument from the input; value to store (if any) and the rest *)
Definition run_handler (k : hkind) (input : list tok) : outcome (option aval * list tok) :=
  let assign_str (f : str -> outcome aval) :=
    match input with
    | KEq :: KStr s :: rest => bind (f s) (fun v => Ok (Some v, rest))
    | KEq :: _ => Err e_expected_str
    | _ => Err e_eq
    end in
  match k with
  | HFlag => Ok (Some AFlag, input)
  | HStr | HBound | HFromStr => assign_str (fun s => Ok (AStr s))
  | HWith => assign_str (fun _ => Ok AFlag)
  | HRule => assign_str (fun s => if valid_rule s then Ok (AStr s) else Err (lit "not a valid rename_all value"))
  | HExpr =>
      match input with
      | KEq :: rest => match until_comma rest with
                       | ([], _) => Err (lit "expected expression")
                       | (e, rest') => Ok (Some (AToks e), rest')
                       end
      | _ => Err e_eq
      end
  | HConcrete =>
      match input with
      | KGroup g :: rest => Ok (Some (AToks g), rest)
      | _ => Err (lit "expected parentheses")
      end
  | HOptional =>
      match input with
      | KEq :: KId n :: rest => if str_eqb n (lit "nullable") then Ok (Some (AOpt true), rest) else Err (lit "expected 'nullable'")
      | KEq :: _ => Err (lit "expected identifier")
      | _ => Ok (Some (AOpt false), input)
      end
  | HIgnoreAssign =>
      match input with
      | KEq :: KStr _ :: rest => Ok (None, rest)
      | KEq :: _ => Err e_expected_str
      | _ => Ok (None, input)
      end
  | HIgnoreAssign2 =>
      match input with
      | KEq :: _ => Err e_eq            (* `=` consumed, then parse_assign_str wants another `=` *)
      | _ => Ok (None, input)
      end
  end.

(* attr/mod.rs: skip_until_next_comma — stops AT the next top-level comma (after the fix) *)
Fixpoint skip_until_next_comma (input : list tok) : list tok :=
  match input with
  | [] => []
  | KComma :: _ => input
  | _ :: r => skip_until_next_comma r
  end.

Definition e_unknown (k : str) : str := lit "Unknown attribute """ ++ k ++ lit """".
Definition e_ident : str := lit "expected ident".
Definition e_comma : str := lit "expected `,`".

(* impl_parse!, first arm (#[ts(..)]): strict *)
Fixpoint parse_ts (fuel : nat) (table : list (str * str)) (out : parsed) (input : list tok) : outcome parsed :=
  match fuel with
  | O => Err (lit "out of fuel")
  | S f =>
      match input with
      | KId k :: rest =>
          match tlookup k table with
          | None => Err (e_unknown k)
          | Some h =>
              match handler_of h with
              | None => Err (lit "unclassified handler")
              | Some (field, kind) =>
                  bind (run_handler kind rest) (fun r =>
                  let out' := match fst r with Some v => (field, v) :: out | None => out end in
                  match snd r with
                  | [] => Ok out'
                  | KComma :: rest' => parse_ts f table out' rest'
                  | _ => Err e_comma
                  end)
              end
          end
      | _ => Err e_ident
      end
  end.

(* impl_parse!, second arm (#[serde(..)]): unknown keys are skipped up to the next comma; a trailing
   comma ends the list (after the fix) *)
Fixpoint parse_serde (fuel : nat) (table : list (str * str)) (out : parsed) (input : list tok) : outcome parsed :=
  match fuel with
  | O => Err (lit "out of fuel")
  | S f =>
      match input with
      | KId k :: rest =>
          let continue_with (out' : parsed) (rest' : list tok) : outcome parsed :=
            match rest' with
            | [] => Ok out'
            | [KComma] => Ok out'
            | KComma :: rest'' => parse_serde f table out' rest''
            | _ => Err e_comma
            end in
          match tlookup k table with
          | None => continue_with out (skip_until_next_comma rest)
          | Some h =>
              match handler_of h with
              | None => Err (lit "unclassified handler")
              | Some (field, kind) =>
                  bind (run_handler kind rest) (fun r =>
                  continue_with (match fst r with Some v => (field, v) :: out | None => out end) (snd r))
              end
          end
      | _ => Err e_ident
      end
  end.

Definition pfuel (l : list tok) : nat := S (length l).

(* an attribute of the item: #[ts(tokens)] or #[serde(tokens)] *)
Definition attribute := (bool * list tok)%type.   (* true = ts *)

Fixpoint has_field (f : str) (p : parsed) : bool :=
  match p with [] => false | (x, _) :: r => str_eqb x f || has_field f r end.

(* parse_attrs: every #[ts(..)] list must parse; earlier lists win (acc.merge(cur) = acc.or(cur)) *)
Fixpoint parse_ts_attrs (pos : position) (attrs : list attribute) : outcome parsed :=
  match attrs with
  | [] => Ok []
  | (true, toks) :: r =>
      bind (parse_ts (pfuel toks) (ts_table pos) [] toks) (fun p =>
      bind (parse_ts_attrs pos r) (fun q => Ok (p ++ q)))
  | (false, _) :: r => parse_ts_attrs pos r
  end.

(* parse_serde_attrs: a list that fails to parse is dropped whole (`.ok()`) *)
Fixpoint parse_serde_attrs (pos : position) (attrs : list attribute) : parsed :=
  match attrs with
  | [] => []
  | (false, toks) :: r =>
      match parse_serde (pfuel toks) (serde_table pos) [] toks with
      | Ok p => p ++ parse_serde_attrs pos r
      | _ => parse_serde_attrs pos r
      end
  | (true, _) :: r => parse_serde_attrs pos r
  end.

(* X::from_attrs: ts first, serde merged underneath; #[ts(skip)] on a field / variant switches the
   serde attributes of that item off *)
Definition from_attrs (compat : bool) (pos : position) (attrs : list attribute) : outcome parsed :=
  bind (parse_ts_attrs pos attrs) (fun t =>
  let skip_serde := match pos with
                    | PField | PVariant => has_field (lit "skip") t
                    | _ => false
                    end in
  if compat && negb skip_serde then Ok (t ++ parse_serde_attrs pos attrs) else Ok t).

(* the effective value of a field of the record *)
Fixpoint value_of (f : str) (p : parsed) : option aval :=
  match p with
  | [] => None
  | (x, v) :: r => if str_eqb x f then Some v else value_of f r
  end.

(* `optional`: Optional::or — nullable if any contributing list says so *)
Definition nullable_of (f : str) (p : parsed) : bool :=
  existsb (fun e => str_eqb (fst e) f && match snd e with AOpt true => true | _ => false end) p.
