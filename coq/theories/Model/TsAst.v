(* TypeScript type AST with a printer that reproduces the exact text of the format! / join calls
   of ts-rs (macros/src/types/*.rs, ts-rs/src/lib.rs).  The printer never inserts parentheses, as
   the code never does.  Definitions only. *)
From TsRs Require Import Base.Str.
From Coq Require Import ZArith.

(* a property head: everything of a property except its type *)
Record phead := {
  p_docs : str;          (* JSDoc block ("/** .. */\n") or [] *)
  p_key : str;           (* the property name *)
  p_text : str;          (* the name as printed (quoted or not) *)
  p_optional : bool      (* `?` *)
}.

Inductive ostyle :=
| OStruct      (* `{ a: T, b: U, }`   : every property followed by `,`, joined by ` ` *)
| OVariant.    (* `{ "k": T, "c": U }`: joined by `, `, no trailing comma *)

Inductive tsty :=
| TPrim (name : str)                       (* number bigint boolean string null never *)
| TVar (name : str)                        (* a type parameter (its name()) *)
| TVarF (name : str)                       (* a type parameter in flattened position (its inline_flattened()) *)
| TRef (name : str) (args : list tsty)     (* Name or Name<A, B> *)
| TArray (t : tsty)                        (* Array<T> *)
| TNeverArr                                (* never[] *)
| TRecordNever                             (* Record<string, never> *)
| TTuple (ts : list tsty)                  (* [A, B] *)
| TObj (st : ostyle) (props : list (phead * tsty))
| TMapped (k v : tsty)                     (* { [key in K]?: V } *)
| TResult (t e : tsty)                     (* { Ok : T } | { Err : E } *)
| TUnion (ts : list tsty)                  (* A | B *)
| TInter (ts : list tsty)                  (* A & B *)
| TParen (t : tsty)                        (* (T) *)
| TLit (s : str)                           (* "abc" (no escaping) *)
| TRaw (text : str)                        (* #[ts(type = "..")] *)
| TMerged (t : tsty)                       (* the operands of an intersection, object literals merged where they meet *)
| TUnwrap (t : tsty).                      (* first `(` / last `)` stripped, trimmed (single flattened field) *)

Definition s_merge_pat : str := lit " } & { ".

(* named.rs: an operand that begins with an object literal is merged into the object literal the text ends
   with (`{ a: A, } & { b: B, }` becomes `{ a: A, b: B, }`); other operands are joined with ` & `.  Only the
   operands are joined this way, the text inside an operand is left as it is. *)
Fixpoint glue_from (acc : str) (ops : list str) : str :=
  match ops with
  | [] => acc
  | o :: r => glue_from (if starts_with (lit "{ ") o && ends_with (lit " }") acc
                         then removelast acc ++ skipn 2 o
                         else acc ++ lit " & " ++ o) r
  end.
Definition glue (ops : list str) : str :=
  match ops with [] => lit "{  }" | x :: r => glue_from x r end.
Definition sp : char := 32.
Definition is_sp_ws (c : char) : bool := is_whitespace c.

(* the first parenthesis of the text closes at its end: every prefix but the whole text is inside it.  Doc comments
   (`/* .. */`) and string literals are not looked into. *)
Fixpoint parens_wrap (depth : nat) (in_comment in_string : bool) (s : str) : bool :=
  match s with
  | [] => true
  | c :: r =>
      if in_comment then
        match s with
        | 42 :: 47 :: r' => parens_wrap depth false false r'
        | _ => parens_wrap depth true false r
        end
      else if in_string then parens_wrap depth false (negb (c =? 34)) r
      else
        match s with
        | 47 :: 42 :: r' => parens_wrap depth true false r'
        | _ =>
            if c =? 34 then parens_wrap depth false true r
            else if c =? 40 then parens_wrap (S depth) false false r
            else if c =? 41 then
              let d := Nat.pred depth in
              if Nat.ltb 0 d || match r with [] => true | _ => false end then parens_wrap d false false r else false
            else parens_wrap depth false false r
        end
  end.

(* named.rs, a lone flattened field: parentheses around the whole text are dropped *)
Definition unwrap_text (s : str) : str :=
  if starts_with [40] s && ends_with [41] s && parens_wrap 0 false false s
  then trim_chars is_sp_ws (removelast (tl s))
  else trim_chars is_sp_ws s.

Section Print.
Fixpoint print (t : tsty) : str :=
  match t with
  | TPrim n => n
  | TVar n => n
  | TVarF n => n
  | TRef n [] => n
  | TRef n args => n ++ lit "<" ++ join (lit ", ") (map print args) ++ lit ">"
  | TArray t => lit "Array<" ++ print t ++ lit ">"
  | TNeverArr => lit "never[]"
  | TRecordNever => lit "Record<string, never>"
  | TTuple ts => lit "[" ++ join (lit ", ") (map print ts) ++ lit "]"
  | TObj OStruct props =>
      lit "{ " ++ join [sp] (map (fun p =>
        (match p_docs (fst p) with [] => [] | d => nl :: d end) ++ p_text (fst p) ++
        (if p_optional (fst p) then lit "?" else []) ++ lit ": " ++ print (snd p) ++ lit ",") props) ++ lit " }"
  | TObj OVariant props =>
      lit "{ " ++ join (lit ", ") (map (fun p => p_text (fst p) ++ lit ": " ++ print (snd p)) props) ++ lit " }"
  | TMapped k v => lit "{ [key in " ++ print k ++ lit "]?: " ++ print v ++ lit " }"
  | TResult t e => lit "{ Ok : " ++ print t ++ lit " } | { Err : " ++ print e ++ lit " }"
  | TUnion ts => join (lit " | ") (map print ts)
  | TInter ts => join (lit " & ") (map print ts)
  | TParen t => lit "(" ++ print t ++ lit ")"
  | TLit s => [34] ++ s ++ [34]
  | TRaw s => s
  | TMerged t => match t with TInter l => glue (map print l) | _ => print t end
  | TUnwrap t => unwrap_text (print t)
  end.
End Print.

(* a declaration: `type Name<P = D, ..> = body;` with its doc block *)
Record tsdecl := {
  d_docs : str;
  d_name : str;
  d_params : list (str * option tsty);
  d_body : tsty
}.

Definition print_params (ps : list (str * option tsty)) : str :=
  match ps with
  | [] => []
  | _ => lit "<" ++ join (lit ", ") (map (fun p => match snd p with
                                                  | None => fst p
                                                  | Some d => fst p ++ lit " = " ++ print d
                                                  end) ps) ++ lit ">"
  end.

(* TS::decl() *)
Definition print_decl (d : tsdecl) : str :=
  lit "type " ++ d_name d ++ print_params (d_params d) ++ lit " = " ++ print (d_body d) ++ lit ";".
