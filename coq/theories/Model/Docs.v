(* macros/src/utils.rs: parse_docs — doc attribute values rendered as one JSDoc block. *)
From TsRs Require Import Base.Str.

Definition doc_line (l : str) : str := lit " *" ++ l.

Definition parse_docs (ls : list str) : str :=
  match ls with
  | [] => []
  | [one] =>
      if existsb (N.eqb nl) one then lit "/**" ++ one ++ lit "*/" ++ [nl]
      else lit "/**" ++ [nl] ++ doc_line one ++ [nl] ++ lit " */" ++ [nl]
  | _ => lit "/**" ++ [nl] ++ join [nl] (map doc_line ls) ++ [nl] ++ lit " */" ++ [nl]
  end.
