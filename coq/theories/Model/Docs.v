(* macros/src/utils.rs: parse_docs — doc attribute values rendered as one JSDoc block, and
   escape_doc, which keeps the text inside the block. *)
From TsRs Require Import Base.Str.

Definition star : char := 42.
Definition fslash : char := 47.
Definition bslash : char := 92.

(* `text.replace("*/", "*\\/")`: non-overlapping matches, left to right *)
Fixpoint esc_close (s : str) : str :=
  match s with
  | c1 :: ((c2 :: r) as t) =>
      if (c1 =? star) && (c2 =? fslash) then star :: bslash :: fslash :: esc_close r
      else c1 :: esc_close t
  | _ => s
  end.

(* `while text.contains("\n\n") { text = text.replace("\n\n", "\n *\n") }`: a newline followed by a newline gets ` *`
   in between (a run of k newlines becomes a newline followed by k-1 times ` *` newline) *)
Fixpoint fill_blank (s : str) : str :=
  match s with
  | c1 :: ((c2 :: _) as t) => if (c1 =? nl) && (c2 =? nl) then nl :: 32 :: star :: fill_blank t else c1 :: fill_blank t
  | _ => s
  end.

Definition escape_doc (s : str) : str :=
  let t := esc_close s in
  match t with
  | c :: _ => if c =? fslash then 32 :: t else t
  | [] => t
  end.

Definition doc_line (l : str) : str := lit " *" ++ l.

Definition parse_docs_raw (ls : list str) : str :=
  let ls := map escape_doc ls in
  match ls with
  | [] => []
  | [one] =>
      if existsb (N.eqb nl) one then lit "/**" ++ one ++ lit "*/" ++ [nl]
      else lit "/**" ++ [nl] ++ doc_line one ++ [nl] ++ lit " */" ++ [nl]
  | _ => lit "/**" ++ [nl] ++ join [nl] (map doc_line ls) ++ [nl] ++ lit " */" ++ [nl]
  end.

(* the whole block goes through the blank-line fill: an exported file separates declarations by an empty line *)
Definition parse_docs (ls : list str) : str := fill_blank (parse_docs_raw ls).
