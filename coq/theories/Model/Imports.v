(* ts-rs/src/export.rs: generate_imports, generate_decl, export_to_string, over an abstract
   universe of types described by what the `TS` trait reports for each of them.
   Definitions only. *)
From TsRs Require Import Base.Str Base.Outcome Gen.Tables Model.Path Model.Merge.

(* what `TS` reports for one Rust type *)
Record tinfo := {
  t_ident : str;                 (* TS::ident() *)
  t_out : option str;            (* TS::output_path(); None = not exportable *)
  t_decl : str;                  (* DOCS ++ "export " ++ decl() *)
  t_visits : list nat;           (* types passed to the visitor by visit_dependencies, in order *)
  t_wg : nat                     (* TS::WithoutGenerics (index into the universe) *)
}.
Definition universe := list tinfo.
Definition t_dummy : tinfo := {| t_ident := []; t_out := None; t_decl := []; t_visits := []; t_wg := 0 |}.
Definition tget (U : universe) (i : nat) : tinfo := nth i U t_dummy.

(* TS::dependencies(): exportable visited types as (type id, ts_name, output_path) *)
Definition dependencies (U : universe) (i : nat) : list (nat * str * str) :=
  flat_map (fun d => match t_out (tget U d) with
                     | Some p => [(d, t_ident (tget U d), p)]
                     | None => []
                     end) (t_visits (tget U i)).

(* BTreeMap<&String, &Dependency>::collect : sorted by name, the LAST of equal names wins *)
Fixpoint dep_insert (e : nat * str * str) (m : list (nat * str * str)) : list (nat * str * str) :=
  match m with
  | [] => [e]
  | x :: r => match str_compare (snd (fst e)) (snd (fst x)) with
              | Lt => e :: m
              | Eq => e :: r
              | Gt => x :: dep_insert e r
              end
  end.

Definition err_cannot_export : str := lit "CannotBeExported".

(* generate_imports::<T>(out, out_dir); T = index `i` (the caller passes WithoutGenerics) *)
Definition generate_imports (esm : bool) (cwd : list str) (U : universe) (i : nat) (out_dir : str)
  : outcome str :=
  match t_out (tget U i) with
  | None => Err err_cannot_export
  | Some op =>
      let path := path_join out_dir op in
      let deps := filter (fun e => negb (Nat.eqb (fst (fst e)) i)) (dependencies U i) in
      let dedup := fold_left (fun m e => dep_insert e m) deps [] in
      let step (acc : outcome imports_map) (e : nat * str * str) : outcome imports_map :=
        bind acc (fun m =>
        bind (import_path esm cwd path (path_join out_dir (snd e))) (fun rel =>
        if is_same_file path rel then Ok m else Ok (map_insert rel [snd (fst e)] m))) in
      bind (fold_left step dedup (Ok [])) (fun m => Ok (render_imports m ++ [nl]))
  end.

(* export_to_string::<T>() ; `default_dir` = default_out_dir() *)
Definition export_to_string (esm : bool) (cwd : list str) (U : universe) (i : nat) (default_dir : str)
  : outcome str :=
  bind (generate_imports esm cwd U (t_wg (tget U i)) default_dir) (fun imports =>
  Ok (NOTE ++ imports ++ t_decl (tget U i) ++ [nl])).
