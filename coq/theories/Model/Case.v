(* ts-rs: macros/src/attr/mod.rs, `impl Inflection { apply_to_variant, apply_to_field }` and
   `lowercase_first`, transcribed arm by arm.  `is_upper` stands for `char::is_uppercase`
   (Unicode derived property `Uppercase`), the only non-ASCII classification the code uses. *)
From TsRs Require Import Base.Str.

Inductive rule := Lower | Upper | Camel | Snake | Pascal | ScreamingSnake | Kebab | ScreamingKebab.
Inductive position := Field | Variant.

Definition all_rules : list rule :=
  [Lower; Upper; Camel; Snake; Pascal; ScreamingSnake; Kebab; ScreamingKebab].

Definition underscore : char := 95.
Definition hyphen : char := 45.

Section WithUnicode.
Variable is_upper : char -> bool.

(* fn lowercase_first(s: &str) -> String *)
Definition lowercase_first (s : str) : str :=
  match s with
  | c :: r => ascii_lower c :: r
  | [] => []
  end.

(* the `for (i, ch) in variant.char_indices()` loop of the Snake arm *)
Fixpoint snake_loop (first : bool) (s : str) : str :=
  match s with
  | [] => []
  | ch :: r =>
      (if negb first && is_upper ch then [underscore] else []) ++ ascii_lower ch :: snake_loop false r
  end.

(* the `for ch in field.chars()` loop of the Pascal arm *)
Fixpoint pascal_loop (capitalize : bool) (s : str) : str :=
  match s with
  | [] => []
  | ch :: r =>
      if ch =? underscore then pascal_loop true r
      else if capitalize then ascii_upper ch :: pascal_loop false r
      else ch :: pascal_loop false r
  end.

Definition apply_to_variant (r : rule) (variant : str) : str :=
  match r with
  | Pascal => variant
  | Lower => to_ascii_lowercase variant
  | Upper => to_ascii_uppercase variant
  | Camel => lowercase_first variant
  | Snake => snake_loop true variant
  | ScreamingSnake => to_ascii_uppercase (snake_loop true variant)
  | Kebab => replace_char underscore [hyphen] (snake_loop true variant)
  | ScreamingKebab => replace_char underscore [hyphen] (to_ascii_uppercase (snake_loop true variant))
  end.

Definition apply_to_field (r : rule) (field : str) : str :=
  match r with
  | Lower | Snake => field
  | Upper | ScreamingSnake => to_ascii_uppercase field
  | Pascal => pascal_loop true field
  | Camel => lowercase_first (pascal_loop true field)
  | Kebab => replace_char underscore [hyphen] field
  | ScreamingKebab => replace_char underscore [hyphen] (to_ascii_uppercase field)
  end.

Definition ts_rename (p : position) (r : rule) (id : str) : str :=
  match p with Field => apply_to_field r id | Variant => apply_to_variant r id end.

End WithUnicode.
