(* Structured view of a shared file and the specification side of C05: what the final file must
   be ("the notice, the union of the needed imports, every declaration intact exactly once in
   name order").  Definitions only. *)
From TsRs Require Import Base.Str Base.Outcome Gen.Tables Model.Merge.
From Coq Require Import Sorting.Permutation.

(* what one type contributes: its registry name, its import groups and its declaration block
   (doc comment + `export type ..;`) *)
Record item := { it_ident : str; it_imports : imports_map; it_block : str }.

Definition key_of (b : str) : str := match decl_name b with Some k => k | None => [] end.

Definition render_body (bs : list str) : str := concat (map (fun b => [nl] ++ b ++ [nl]) bs).

(* the text `export_to_string` produces for one item / a file holding several blocks *)
Definition render_file (im : imports_map) (bs : list str) : str :=
  NOTE ++ render_imports im ++ render_body bs.
Definition item_text (i : item) : str := render_file (it_imports i) [it_block i].

(* normal form of a multiset of import groups: what the BTreeMap/BTreeSet hold *)
Definition norm_imports (l : list (str * list str)) : imports_map :=
  fold_left (fun m e => map_insert (fst e) (snd e) m) l [].

(* the code's insertion loop on a list of blocks *)
Fixpoint insert_block (new : str) (bs : list str) : list str :=
  match bs with
  | [] => [new]
  | b :: r => if str_ltb (key_of b) (key_of new) then b :: insert_block new r else new :: b :: r
  end.

(* insertion sort by key: the name order of the final file *)
Definition sort_blocks (bs : list str) : list str := fold_left (fun acc b => insert_block b acc) bs [].

(* the file every history exporting exactly these items must end with *)
Definition canonical_file (items : list item) : str :=
  render_file (norm_imports (flat_map it_imports items)) (sort_blocks (map it_block items)).

(* --- well-formedness (boolean, so that generated inputs can be checked by computation) ------- *)
Definition name_char (c : char) : bool := negb (is_whitespace c) && negb (c =? 44) (* , *) && negb (c =? 125) (* } *).
(* an imported name `from` as the last name of a group makes the line's first " from " the wrong
   one (`import type { from } from "p";`): known class, excluded here *)
Definition wf_name (n : str) : bool :=
  negb (str_eqb n []) && forallb name_char n && negb (str_eqb n (lit "from")).
Definition path_char (c : char) : bool := negb (c =? quote) && negb (c =? semicolon) && negb (c =? nl) && negb (c =? cr).
Definition wf_path (p : str) : bool := negb (str_eqb p []) && forallb path_char p.
Definition wf_group (e : str * list str) : bool :=
  wf_path (fst e) && negb (match snd e with [] => true | _ => false end) && forallb wf_name (snd e).
Definition wf_block (b : str) : bool :=
  negb (str_eqb b []) && negb (contains s_nlnl b) &&
  negb (starts_with [nl] b) && negb (ends_with [nl] b) &&
  match decl_name b with Some _ => true | None => false end.
Definition wf_item (i : item) : bool := forallb wf_group (it_imports i) && wf_block (it_block i).

(* --- one shared file inside one process ------------------------------------------------------ *)
Record fstate := { f_content : option str;      (* None: not yet written by this process *)
                   f_names : list str }.        (* EXPORT_PATHS entry of the file *)
Definition f_init : fstate := {| f_content := None; f_names := [] |}.

(* export_and_merge for one file; `stale` (whatever was on disk before) is irrelevant: the first
   touch truncates *)
Definition export_raw (st : fstate) (ident text : str) : outcome fstate :=
  match f_content st with
  | None => Ok {| f_content := Some text; f_names := [ident] |}
  | Some old =>
      if existsb (str_eqb ident) (f_names st) then Ok st
      else bind (merge_into_file old text) (fun c =>
           Ok {| f_content := Some c; f_names := ident :: f_names st |})
  end.

Definition export_item (st : fstate) (i : item) : outcome fstate :=
  export_raw st (it_ident i) (item_text i).

Fixpoint run_raw (st : fstate) (h : list (str * str)) : outcome fstate :=
  match h with
  | [] => Ok st
  | (ident, text) :: r => bind (export_raw st ident text) (fun st' => run_raw st' r)
  end.

Fixpoint run_history (st : fstate) (h : list item) : outcome fstate :=
  match h with
  | [] => Ok st
  | i :: r => bind (export_item st i) (fun st' => run_history st' r)
  end.

Definition file_after (h : list item) : outcome (option str) := omap f_content (run_history f_init h).
