(* The diagnostics of the derive: Attr::assert_validity of the four positions (attr/*.rs), the checks
   of types/unit.rs and types/enum.rs, EnumAttr::tagged, and the order in which struct_def / enum_def
   run them — the outcome (tokens | compile error with its message | panic) of expanding an item
   whose attributes are given as token lists.  Definitions only. *)
From TsRs Require Import Base.Str Base.Outcome Gen.Tables Model.Attr.
Open Scope string_scope.
Open Scope list_scope.

Definition has (f : String.string) (p : parsed) : bool := has_field (lit f) p.
Definition err {A} (m : String.string) : outcome A := Err (lit m).

Inductive fshape := FNamed | FUnnamed | FUnit.

(* attr/struct.rs: StructAttr::assert_validity (item = the fields) *)
Definition struct_validity (r : parsed) (sh : fshape) : outcome unit :=
  if has "type_override" r && has "type_as" r then err "`as` is not compatible with `type`"
  else if has "type_override" r && has "rename_all" r then err "`rename_all` is not compatible with `type`"
  else if has "type_override" r && has "tag" r then err "`tag` is not compatible with `type`"
  else if has "type_override" r && has "optional_fields" r then err "`optional_fields` is not compatible with `type`"
  else if has "type_as" r && has "tag" r then err "`tag` is not compatible with `as`"
  else if has "type_as" r && has "rename_all" r then err "`rename_all` is not compatible with `as`"
  else if has "type_as" r && has "optional_fields" r then err "`optional_fields` is not compatible with `as`"
  else match sh with
       | FNamed => Ok tt
       | _ =>
           if has "tag" r then err "`tag` cannot be used with unit or tuple structs"
           else if has "rename_all" r then err "`rename_all` cannot be used with unit or tuple structs"
           else if has "optional_fields" r then err "`optional_fields` cannot be used with unit or tuple structs"
           else Ok tt
       end.

(* attr/enum.rs: EnumAttr::assert_validity *)
Definition enum_validity (r : parsed) : outcome unit :=
  if has "type_override" r && has "type_as" r then err "`as` is not compatible with `type`"
  else if has "type_override" r && has "rename_all" r then err "`rename_all` is not compatible with `type`"
  else if has "type_override" r && has "rename_all_fields" r then err "`rename_all_fields` is not compatible with `type`"
  else if has "type_override" r && has "tag" r then err "`tag` is not compatible with `type`"
  else if has "type_override" r && has "content" r then err "`content` is not compatible with `type`"
  else if has "type_override" r && has "untagged" r then err "`untagged` is not compatible with `type`"
  else if has "type_as" r && has "rename_all" r then err "`rename_all` is not compatible with `as`"
  else if has "type_as" r && has "rename_all_fields" r then err "`rename_all_fields` is not compatible with `as`"
  else if has "type_as" r && has "tag" r then err "`tag` is not compatible with `as`"
  else if has "type_as" r && has "content" r then err "`content` is not compatible with `as`"
  else if has "type_as" r && has "untagged" r then err "`untagged` is not compatible with `as`"
  else if has "untagged" r && has "tag" r && negb (has "content" r) then err "untagged cannot be used with tag"
  else if has "untagged" r && has "content" r then err "untagged cannot be used with content"
  else if negb (has "untagged" r) && negb (has "tag" r) && has "content" r then err "content cannot be used without tag"
  else Ok tt.

(* EnumAttr::tagged: fails in exactly the cases the last three checks of assert_validity reject *)
Definition tagged_ok (r : parsed) : bool :=
  negb ((has "untagged" r && has "tag" r && negb (has "content" r)) || (has "untagged" r && has "content" r)
        || (negb (has "untagged" r) && negb (has "tag" r) && has "content" r)).

(* attr/variant.rs: VariantAttr::assert_validity (item = the variant: its fields) *)
Definition variant_validity (r : parsed) (sh : fshape) : outcome unit :=
  if has "type_as" r && has "type_override" r then err "`as` is not compatible with `type`"
  else if has "type_as" r && has "rename_all" r then err "`as` is not compatible with `rename_all`"
  else if has "type_override" r && has "rename_all" r then err "`type` is not compatible with `rename_all`"
  else if has "type_override" r && has "inline" r then err "`type` is not compatible with `inline`"
  else match sh with
       | FNamed => Ok tt
       | _ => if has "rename_all" r then err "`rename_all` is not applicable to unit or tuple variants" else Ok tt
       end.

(* attr/field.rs: FieldAttr::assert_validity (named = the field has an identifier) *)
Definition field_validity (compat : bool) (r : parsed) (named : bool) : outcome unit :=
  if compat && has "using_serde_with" r && negb (has "type_as" r || has "type_override" r)
  then err "using `#[serde(with = ""..."")]` requires the use of `#[ts(as = ""..."")]` or `#[ts(type = ""..."")]`"
  else if has "type_override" r && has "type_as" r then err "`type` is not compatible with `as`"
  else if has "type_override" r && has "inline" r then err "`type` is not compatible with `inline`"
  else if has "type_override" r && has "flatten" r then err "`type` is not compatible with `flatten`"
  else if has "type_override" r && has "optional" r then err "`type` is not compatible with `optional`"
  else if has "flatten" r && has "type_as" r then err "`as` is not compatible with `flatten`"
  else if has "flatten" r && has "rename" r then err "`rename` is not compatible with `flatten`"
  else if has "flatten" r && has "inline" r then err "`inline` is not compatible with `flatten`"
  else if has "flatten" r && has "optional" r then err "`optional` is not compatible with `flatten`"
  else if negb named && has "flatten" r then err "`flatten` cannot with tuple struct fields"
  else if negb named && has "rename" r then err "`flatten` cannot with tuple struct fields"
  else if negb named && has "optional" r then err "`optional` cannot with tuple struct fields"
  else Ok tt.

(* types/unit.rs: check_attributes (empty `struct S {}`, `struct S()`, `struct S;`) *)
Definition unit_check (r : parsed) : outcome unit :=
  if has "rename_all" r then err "`rename_all` is not applicable to unit structs"
  else if has "tag" r then err "`tag` is not applicable to unit structs"
  else Ok tt.

(* --- items ------------------------------------------------------------------------------------ *)
Record ifield := { if_named : bool; if_attrs : list attribute }.
Record ivariant := { iv_shape : fshape; iv_attrs : list attribute; iv_fields : list ifield }.
Inductive item :=
| IStruct (attrs : list attribute) (sh : fshape) (fields : list ifield)
| IEnum (attrs : list attribute) (variants : list ivariant).

Definition e2 {A} (o : outcome A) : outcome unit := match o with Ok _ => Ok tt | Err m => Err m | Panic m => Panic m end.

Section Expand.
Variable compat : bool.

(* every field is parsed and validated unless it is reached after a `skip` return *)
Definition field_check (f : ifield) : outcome parsed :=
  bind (from_attrs compat PField (if_attrs f)) (fun r => bind (field_validity compat r (if_named f)) (fun _ => Ok r)).

Fixpoint fields_check (fs : list ifield) : outcome unit :=
  match fs with
  | [] => Ok tt
  | f :: r => bind (field_check f) (fun _ => fields_check r)
  end.

(* types/mod.rs: type_def — validity, overrides, then dispatch on the shape *)
Definition type_def (r : parsed) (sh : fshape) (fields : list ifield) : outcome unit :=
  bind (struct_validity r sh) (fun _ =>
  if has "type_override" r then Ok tt
  else if has "type_as" r then Ok tt
  else match sh, fields with
       | FNamed, [] => if has "tag" r then Ok tt else unit_check r
       | FNamed, _ => fields_check fields
       | FUnnamed, [] => unit_check r
       | FUnnamed, [f] => bind (field_check f) (fun _ => Ok tt)     (* newtype: the field is validated, then skip *)
       | FUnnamed, _ => fields_check fields
       | FUnit, _ => unit_check r
       end).

(* StructAttr::from_variant: what the variant's pseudo-struct carries *)
Definition variant_struct_attr (er vr : parsed) (sh : fshape) : outcome parsed :=
  let ra := match value_of (lit "rename_all") vr with
            | Some v => [(lit "rename_all", v)]
            | None => match sh, value_of (lit "rename_all_fields") er with
                      | FNamed, Some v => [(lit "rename_all", v)]
                      | _, _ => []
                      end
            end in
  let tag := match sh with
             | FNamed =>
                 if has "untagged" vr then Ok []
                 else if tagged_ok er
                      then (if has "tag" er && negb (has "content" er) && negb (has "untagged" er) then Ok [(lit "tag", AFlag)] else Ok [])
                      else Panic (lit "The variant attribute is known to be valid at this point")
             | _ => Ok []
             end in
  bind tag (fun t => Ok (ra ++ t)).

Definition variant_check (er : parsed) (v : ivariant) : outcome unit :=
  bind (from_attrs compat PVariant (iv_attrs v)) (fun vr =>
  bind (variant_validity vr (iv_shape v)) (fun _ =>
  if has "skip" vr then Ok tt else
  bind (variant_struct_attr er vr (iv_shape v)) (fun sr =>
  bind (type_def sr (iv_shape v) (iv_fields v)) (fun _ =>
  if has "type_as" vr && has "type_override" vr then err "`type` is not compatible with `as`" else
  if tagged_ok er then Ok tt else err "tagged"))))  .

Fixpoint variants_check (er : parsed) (vs : list ivariant) : outcome unit :=
  match vs with
  | [] => Ok tt
  | v :: r => bind (variant_check er v) (fun _ => variants_check er r)
  end.

(* struct_def / enum_def up to the point where tokens are produced *)
Definition expand (i : item) : outcome unit :=
  match i with
  | IStruct attrs sh fields =>
      bind (from_attrs compat PStruct attrs) (fun r => type_def r sh fields)
  | IEnum attrs vs =>
      bind (from_attrs compat PEnum attrs) (fun r =>
      bind (enum_validity r) (fun _ =>
      if has "type_override" r then Ok tt
      else if has "type_as" r then Ok tt
      else variants_check r vs))
  end.
End Expand.
