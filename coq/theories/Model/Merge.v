(* ts-rs/src/export.rs: `merge` (textual merge of a new declaration into an existing file) and the
   file-level effect of `export_and_merge`, transcribed statement by statement on strings.
   Definitions only.  NOTE, DECLARATION_START and HEADER_ERROR_MESSAGE come from the regenerated
   Gen/Tables.v. *)
From TsRs Require Import Base.Str Base.Outcome Gen.Tables.

Definition s_nlnl : str := [nl; nl].
Definition s_from : str := lit " from ".
Definition s_import_open : str := lit "import type { ".
Definition s_import_close : str := lit " }".
Definition s_comma_sp : str := lit ", ".
Definition quote : char := 34.
Definition semicolon : char := 59.
Definition is_nl (c : char) : bool := c =? nl.

(* --- BTreeMap<&str, BTreeSet<&str>> as sorted association lists ----------------------------- *)
Fixpoint set_insert (x : str) (l : list str) : list str :=
  match l with
  | [] => [x]
  | y :: r => match str_compare x y with
              | Lt => x :: l
              | Eq => l
              | Gt => y :: set_insert x r
              end
  end.

Definition imports_map := list (str * list str).

Fixpoint map_insert (path : str) (tys : list str) (m : imports_map) : imports_map :=
  match m with
  | [] => [(path, fold_left (fun s t => set_insert t s) tys [])]
  | (p, s) :: r => match str_compare path p with
                   | Lt => (path, fold_left (fun s t => set_insert t s) tys []) :: m
                   | Eq => (p, fold_left (fun s t => set_insert t s) tys s) :: r
                   | Gt => (p, s) :: map_insert path tys r
                   end
  end.

(* one `import type { A, B } from "path";` line -> (path, types); None where the code's
   `.unwrap()` of split_once(" from ") panics *)
Definition parse_import_line (line : str) : option (str * list str) :=
  match split_once s_from line with
  | None => None
  | Some (import, from) =>
      let path := trim_end_chars (fun c => (c =? quote) || (c =? semicolon)) (trim_start_chars (fun c => c =? quote) from) in
      let types := split s_comma_sp (trim_end_matches s_import_close (trim_start_matches s_import_open import)) in
      Some (path, types)
  end.

Fixpoint parse_import_lines (ls : list str) : option (list (str * list str)) :=
  match ls with
  | [] => Some []
  | l :: r => match parse_import_line l, parse_import_lines r with
              | Some x, Some xs => Some (x :: xs)
              | _, _ => None
              end
  end.

Definition render_import (e : str * list str) : str :=
  s_import_open ++ join s_comma_sp (snd e) ++ lit " } from """ ++ fst e ++ lit """;" ++ [nl].

Definition render_imports (m : imports_map) : str := concat (map render_import m).

(* `decl.split(DECLARATION_START).last().unwrap().split_whitespace().next()` *)
Definition decl_name (decl : str) : option str :=
  first_token (last_piece (split DECLARATION_START decl)).

(* the insertion loop; None = the `.unwrap()` on a declaration without a name token panics *)
Fixpoint insert_loop (new_decl new_name : str) (inserted : bool) (decls : list str) : option str :=
  match decls with
  | [] => Some (if inserted then [] else [nl] ++ new_decl ++ [nl])
  | decl :: r =>
      match decl_name decl with
      | None => None
      | Some name =>
          if inserted || str_ltb name new_name then
            match insert_loop new_decl new_name inserted r with
            | Some rest => Some ([nl] ++ decl ++ [nl] ++ rest)
            | None => None
            end
          else
            match insert_loop new_decl new_name true r with
            | Some rest => Some ([nl] ++ new_decl ++ [nl] ++ [nl] ++ decl ++ [nl] ++ rest)
            | None => None
            end
      end
  end.

Definition tl_lines (s : str) : list str := tl (lines s).   (* .lines().skip(1) *)

(* fn merge(original_contents, new_contents) -> String *)
Definition merge (original new : str) : outcome str :=
  match split_once s_nlnl original, split_once s_nlnl new with
  | Some (original_header, original_decls), Some (new_header, new_decl) =>
      match parse_import_lines (tl_lines original_header ++ tl_lines new_header) with
      | None => Panic (lit "called `Option::unwrap()` on a `None` value")
      | Some import_lines =>
          let imports_map := fold_left (fun m e => map_insert (fst e) (snd e) m) import_lines [] in
          let imports := render_imports imports_map in
          let new_decl := trim_chars is_nl new_decl in
          match decl_name new_decl with
          | None => Panic (lit "called `Option::unwrap()` on a `None` value")
          | Some new_name =>
              let decls := map (trim_chars is_nl) (split s_nlnl original_decls) in
              match insert_loop new_decl new_name false decls with
              | Some body => Ok (imports ++ body)
              | None => Panic (lit "called `Option::unwrap()` on a `None` value")
              end
          end
      end
  | _, _ => Panic HEADER_ERROR_MESSAGE
  end.

(* export_and_merge, second branch: the file is rewritten in place from byte offset NOTE.len()
   without truncation.  NOTE is ASCII, so the offset is also a character offset as long as the old
   file starts with NOTE; a shorter new body would leave a stale tail. *)
Definition NOTE_len : nat := length NOTE.

Definition rewrite_file (old buffer : str) : outcome str :=
  if (utf8_size old <=? N.of_nat NOTE_len + utf8_size buffer) then Ok (firstn NOTE_len old ++ buffer)
  else Err (lit "stale tail: the merged text is shorter than the old file").

Definition merge_into_file (old new : str) : outcome str :=
  bind (merge old new) (rewrite_file old).
