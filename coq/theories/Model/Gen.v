(* The derive macro and the library impls as a generator of TypeScript ASTs: TS::name(), inline(),
   inline_flattened(), decl(), decl_concrete(), visit_generics(), visit_dependencies() for every
   type of the fragment (Model/Rust.v).  `print` of the result (Model/TsAst.v) is compared byte for
   byte with the implementation.
   Mirrors macros/src/types/{mod,named,newtype,tuple,unit,enum,type_as,type_override}.rs,
   macros/src/lib.rs (generate_decl_fn, name_with_generics, format_generics), macros/src/deps.rs
   and the hand-written impls of ts-rs/src/lib.rs.

   Structure (open recursion, so that every proof about the generator is: one lemma about the
   library layer by induction over `rty`, one lemma about the derive layer by case analysis, and a
   three-line induction over the fuel):
     lib_*   : the impls of ts-rs/src/lib.rs, parametrised by what derived types answer;
     def_*   : what one derive expands to, parametrised by what field types answer;
     gen/deps: the knot, tied by recursion on fuel (unfolding a named type costs one unit).
   Definitions only. *)
From TsRs Require Import Base.Str Base.Outcome Gen.Tables Model.Case Model.TsAst Model.Rust Model.Docs.

Section OmapList.
Context {A B : Type} (f : A -> outcome B).
Fixpoint omap_list (l : list A) : outcome (list B) :=
  match l with
  | [] => Ok []
  | x :: r => match f x with
              | Ok y => match omap_list r with Ok ys => Ok (y :: ys) | Err m => Err m | Panic m => Panic m end
              | Err m => Err m
              | Panic m => Panic m
              end
  end.
End OmapList.

Definition oconcat {A : Type} (l : outcome (list (list A))) : outcome (list A) := omap (@concat A) l.

Section Gen.
(* Unicode classification used by the macro (char::is_uppercase / is_alphanumeric / is_numeric) *)
Variable is_upper : char -> bool.
Variable is_alnum : char -> bool.
Variable is_numeric : char -> bool.
Variable R : env.

Definition p_cannot_inline : str := lit "cannot be inlined".
Definition p_cannot_flatten : str := lit "cannot be flattened".
Definition p_out_of_fuel : str := lit "out of fuel".
Definition p_unknown_type : str := lit "unknown type".
Definition p_param : str := lit "unsubstituted type parameter".

Definition prim (s : String.string) : tsty := TPrim (lit s).
Arguments prim s%string.

Definition leaf_ts (l : leaf) : tsty :=
  match l with
  | LInt false _ _ => prim "number"
  | LInt true _ _ => prim "bigint"
  | LFloat => prim "number"
  | LBool => prim "boolean"
  | LString | LChar => prim "string"
  | LUnit => prim "null"
  end.

(* utils.rs: raw_name_to_ts_field *)
Definition raw_name_to_ts_field (value : str) : str :=
  let valid_chars := forallb (fun c => is_alnum c || (c =? 95) || (c =? 36)) value in
  let no_digit_start := match value with [] => true | c :: _ => negb (is_numeric c) end in
  if valid_chars && no_digit_start then value else [34] ++ value ++ [34].

Definition quoted_head (key : str) : phead :=
  {| p_docs := []; p_key := key; p_text := [34] ++ key ++ [34]; p_optional := false |}.
Definition plain_head (key : str) : phead :=
  {| p_docs := []; p_key := key; p_text := key; p_optional := false |}.

Definition array_ts (n : nat) (a : tsty) : tsty :=
  if Nat.ltb ARRAY_TUPLE_LIMIT n then TArray a else TTuple (repeat a n).

(* --- TS::name() -------------------------------------------------------------------------- *)
Fixpoint name_of (t : rty) : outcome tsty :=
  match t with
  | RLeaf l => Ok (leaf_ts l)
  | ROption t => bind (name_of t) (fun a => Ok (TUnion [a; prim "null"]))
  | RVec t => bind (name_of t) (fun a => Ok (TArray a))
  | RArray O _ => Ok (TTuple [])          (* `(0..N).map(..)`: the element type is never asked *)
  | RArray n t => bind (name_of t) (fun a => Ok (array_ts n a))
  | RTuple ts => bind (omap_list name_of ts) (fun l => Ok (TTuple l))
  | RMap k v => bind (name_of k) (fun a => bind (name_of v) (fun b => Ok (TMapped a b)))
  | RWrap t => name_of t
  | RResult t e => bind (name_of t) (fun a => bind (name_of e) (fun b => Ok (TResult a b)))
  | RRange t =>
      bind (name_of t) (fun a => Ok (TObj OStruct [(plain_head (lit "start"), a); (plain_head (lit "end"), a)]))
  | RNamed id args =>
      match lookup R id with
      | None => Panic p_unknown_type
      | Some d => bind (omap_list name_of args) (fun l => Ok (TRef (ts_ident d) l))
      end
  | RParam _ => Panic p_param
  | RDummy n => Ok (TVar n)
  end.

(* --- TS::visit_generics(): the types handed to the visitor, in order ---------------------- *)
Fixpoint visit_generics (t : rty) : list rty :=
  match t with
  | RLeaf _ => []
  | ROption u | RVec u | RArray _ u | RWrap u | RRange u => visit_generics u ++ [u]
  | RTuple ts => flat_map (fun u => u :: visit_generics u) ts
  | RMap k v | RResult k v => visit_generics k ++ [k] ++ visit_generics v ++ [v]
  | RNamed _ args => flat_map (fun u => u :: visit_generics u) args
  | RParam _ => []
  | RDummy _ => []
  end.

(* Dependencies::push(ty) = v.visit::<ty>(); ty::visit_generics(v) *)
Definition push (t : rty) : list rty := t :: visit_generics t.

(* Option<T>::IS_OPTION / OptionInnerType *)
Definition is_option (t : rty) : bool := match t with ROption _ => true | _ => false end.
Definition option_inner (t : rty) : rty := match t with ROption u => u | _ => t end.

Definition field_key (rename_all : option rule) (f : field) : str :=
  match f_rename f, rename_all with
  | Some n, _ => n
  | None, Some r => apply_to_field r (f_ident f)
  | None, None => f_ident f
  end.

Definition variant_name (rename_all : option rule) (v : variant) : str :=
  match v_rename v, rename_all with
  | Some n, _ => n
  | None, Some r => apply_to_variant is_upper r (v_ident v)
  | None, None => v_ident v
  end.

(* what type_def returns: inline and (maybe) inline_flattened *)
Definition derived := (tsty * option tsty)%type.
Definition dgen := typedef -> list rty -> outcome derived.
Definition ddeps := typedef -> list rty -> outcome (list rty).

(* ============================ library layer (ts-rs/src/lib.rs) ============================ *)
Section Lib.
Variable g : dgen.
Variable gd : ddeps.

(* TS::inline() *)
Fixpoint lib_inline (t : rty) : outcome tsty :=
  match t with
  | RLeaf l => Ok (leaf_ts l)
  | ROption t => bind (lib_inline t) (fun a => Ok (TUnion [a; prim "null"]))
  | RVec t => bind (lib_inline t) (fun a => Ok (TArray a))
  | RArray O _ => Ok (TTuple [])
  | RArray n t => bind (lib_inline t) (fun a => Ok (array_ts n a))
  | RTuple _ => Panic (lit "tuple cannot be inlined!")
  | RMap k v => bind (lib_inline k) (fun a => bind (lib_inline v) (fun b => Ok (TMapped a b)))
  | RWrap t => lib_inline t
  | RResult t e => bind (lib_inline t) (fun a => bind (lib_inline e) (fun b => Ok (TResult a b)))
  | RRange _ => Panic p_cannot_inline
  | RNamed id args =>
      match lookup R id with
      | None => Panic p_unknown_type
      | Some d => omap fst (g d args)
      end
  | RParam _ => Panic p_param
  | RDummy _ => Panic p_cannot_inline
  end.

(* TS::inline_flattened() *)
Fixpoint lib_flat (t : rty) : outcome tsty :=
  match t with
  | RWrap t => lib_flat t
  | RNamed id args =>
      match lookup R id with
      | None => Panic p_unknown_type
      | Some d => bind (g d args) (fun r => match snd r with Some x => Ok x | None => Panic p_cannot_flatten end)
      end
  | RDummy n => Ok (TVarF n)
  | _ => Panic p_cannot_flatten
  end.

(* TS::visit_dependencies() *)
Fixpoint lib_vdeps (t : rty) : outcome (list rty) :=
  match t with
  | RLeaf _ => Ok []
  | ROption u | RVec u | RArray _ u | RWrap u | RRange u => lib_vdeps u
  | RTuple _ => Ok []                      (* impl_tuples! has no visit_dependencies *)
  | RMap k v | RResult k v => bind (lib_vdeps k) (fun a => bind (lib_vdeps v) (fun b => Ok (a ++ b)))
  | RNamed id args =>
      match lookup R id with
      | None => Panic p_unknown_type
      | Some d => gd d args
      end
  | RParam _ => Panic p_param
  | RDummy _ => Ok []
  end.
End Lib.

(* ============================ derive layer (macros/src/types) ============================= *)
Section Def.
Variable inl : rty -> outcome tsty.        (* <ty as TS>::inline() *)
Variable flt : rty -> outcome tsty.        (* <ty as TS>::inline_flattened() *)
Variable vdp : rty -> outcome (list rty).  (* <ty as TS>::visit_dependencies(v) *)

(* element of a newtype / tuple struct: type override, inline() or name() *)
Definition value_ty (args : list rty) (fl : field) : outcome tsty :=
  match f_type fl with
  | Some text => Ok (TRaw text)
  | None => if f_inline fl then inl (rsubst args (f_ty fl)) else name_of (rsubst args (f_ty fl))
  end.
Definition value_deps (args : list rty) (fl : field) : outcome (list rty) :=
  match f_type fl with
  | Some _ => Ok []
  | None => if f_inline fl then vdp (rsubst args (f_ty fl)) else Ok (push (rsubst args (f_ty fl)))
  end.

(* named.rs: format_field — (`?` annotation, nullable) *)
Definition field_optional (opt : optional) (fl : field) (ty : rty) : bool * bool :=
  match opt, f_optional fl with
  | _, Optional n => (true, n)
  | Optional n, NotOptional => (is_option ty, n)
  | NotOptional, NotOptional => (false, true)
  end.

Definition field_ty (args : list rty) (opt : optional) (fl : field) : rty :=
  let ty := rsubst args (f_ty fl) in
  if snd (field_optional opt fl ty) then ty else option_inner ty.

Definition field_docs (fl : field) : str := parse_docs (f_docs fl).

Definition prop_of (args : list rty) (rename_all : option rule) (opt : optional) (fl : field)
  : outcome (phead * tsty) :=
  let key := field_key rename_all fl in
  match f_type fl with
  | Some text =>
      Ok ({| p_docs := field_docs fl; p_key := key; p_text := raw_name_to_ts_field key; p_optional := false |}, TRaw text)
  | None =>
      let ty := field_ty args opt fl in
      let q := fst (field_optional opt fl (rsubst args (f_ty fl))) in
      bind (if f_inline fl then inl ty else name_of ty) (fun x =>
      Ok ({| p_docs := field_docs fl; p_key := key; p_text := raw_name_to_ts_field key; p_optional := q |}, x))
  end.

Definition prop_deps (args : list rty) (opt : optional) (fl : field) : outcome (list rty) :=
  match f_type fl with
  | Some _ => Ok []
  | None =>
      let ty := field_ty args opt fl in
      if f_flatten fl || f_inline fl then vdp ty else Ok (push ty)
  end.

Definition live (fs : list field) : list field := filter (fun fl => negb (f_skip fl)) fs.
(* a type-overridden field is formatted before `flatten` is looked at *)
Definition is_flat (fl : field) : bool := f_flatten fl && match f_type fl with Some _ => false | None => true end.

(* types/mod.rs: type_def dispatch on the shape of the fields; `tag` = (tag key, name) *)
Definition shape_gen (args : list rty) (rename_all : option rule) (opt : optional)
           (tag : option (str * str)) (s : shape) : outcome derived :=
  match s with
  | SUnit => Ok (prim "null", None)
  | STuple [] => Ok (TNeverArr, None)
  | STuple [fl] => if f_skip fl then Ok (prim "null", None) else bind (value_ty args fl) (fun x => Ok (x, None))
  | STuple fs => bind (omap_list (value_ty args) (live fs)) (fun l => Ok (TTuple l, None))
  | SNamed fs =>
      match fs, tag with
      | [], None => Ok (TRecordNever, None)
      | _, _ =>
          bind (omap_list (prop_of args rename_all opt) (filter (fun fl => negb (is_flat fl)) (live fs))) (fun props =>
          bind (omap_list (fun fl => flt (field_ty args opt fl)) (filter is_flat (live fs))) (fun flats =>
          let props := match tag with
                       | Some (t, n) => (quoted_head t, TLit n) :: props
                       | None => props
                       end in
          let obj := TObj OStruct props in
          match props, flats with
          | _, [] => Ok (TMerged obj, Some (TMerged obj))
          | [], [x] => Ok (TMerged (TUnwrap x), Some (TMerged (TInter flats)))
          | [], _ => Ok (TMerged (TInter flats), Some (TMerged (TInter flats)))
          | _, _ => Ok (TMerged (TInter (obj :: flats)), Some (TMerged (TInter (obj :: flats))))
          end))
      end
  end.

Definition shape_deps (args : list rty) (opt : optional) (s : shape) : outcome (list rty) :=
  match s with
  | SUnit => Ok []
  | STuple [] => Ok []
  | STuple [fl] => if f_skip fl then Ok [] else value_deps args fl
  | STuple fs => oconcat (omap_list (value_deps args) (live fs))
  | SNamed fs => oconcat (omap_list (prop_deps args opt) (live fs))
  end.

Definition is_named (s : shape) : bool := match s with SNamed _ => true | _ => false end.
Definition is_unit (s : shape) : bool := match s with SUnit => true | _ => false end.
Definition lone_field (s : shape) : option field := match s with STuple [fl] => Some fl | _ => None end.

Definition variant_rename_all (raf : option rule) (v : variant) : option rule :=
  match v_rename_all v with Some r => Some r | None => if is_named (v_shape v) then raf else None end.

(* a variant with `type` / `as` never asks for the text of its own fields at run time (the tokens of the field types are
   generated but not used): a panic in there does not happen; what remains of the shape is whether it has a flattened form *)
Definition has_flat_form (tag : option (str * str)) (s : shape) : bool :=
  match s with
  | SNamed fs => match fs, tag with [], None => false | _, _ => true end
  | _ => false
  end.
Definition shape_lazy (o : outcome derived) (flat : bool) : outcome derived :=
  match o with
  | Panic _ => Ok (prim "never", if flat then Some (prim "never") else None)
  | _ => o
  end.

(* types/enum.rs: format_variant *)
Definition variant_gen (args : list rty) (a : cattrs) (tg : tagging) (raf : option rule) (v : variant)
  : outcome tsty :=
  let name := variant_name (c_rename_all a) v in
  let tag := match tg, is_named (v_shape v) && negb (v_untagged v) with Internal t, true => Some (t, name) | _, _ => None end in
  let sg := shape_gen args (variant_rename_all raf v) NotOptional tag (v_shape v) in
  bind (match v_as v, v_type v with None, None => sg | _, _ => shape_lazy sg (has_flat_form tag (v_shape v)) end) (fun vt =>
  bind (match v_as v, v_type v with
        | Some u, _ => name_of (rsubst args u)
        | None, Some text => Ok (TRaw text)
        | None, None => Ok (fst vt)
        end) (fun parsed =>
  let obj l := TObj OVariant l in
  if v_untagged v then Ok parsed else
  match tg with
  | Untagged => Ok parsed
  | External =>
      match v_shape v, lone_field (v_shape v) with
      | SUnit, _ => Ok (TLit name)
      | _, Some fl => if f_skip fl then Ok (TLit name) else Ok (obj [(quoted_head name, parsed)])
      | _, None => Ok (obj [(quoted_head name, parsed)])
      end
  | Adjacent t c =>
      match v_shape v, lone_field (v_shape v) with
      | SUnit, _ => Ok (obj [(quoted_head t, TLit name)])
      | _, Some fl =>
          if f_skip fl then Ok (obj [(quoted_head t, TLit name)])
          else Ok (obj [(quoted_head t, TLit name); (quoted_head c, parsed)])
      | _, None => Ok (obj [(quoted_head t, TLit name); (quoted_head c, parsed)])
      end
  | Internal t =>
      match snd vt with
      | Some _ => Ok parsed
      | None =>
          match v_shape v, lone_field (v_shape v) with
          | SUnit, _ => Ok (obj [(quoted_head t, TLit name)])
          | _, Some fl =>
              if f_skip fl then Ok (obj [(quoted_head t, TLit name)])
              else Ok (TInter [obj [(quoted_head t, TLit name)]; parsed])
          | _, None => Ok (TInter [obj [(quoted_head t, TLit name)]; parsed])
          end
      end
  end)).

Definition variant_deps (args : list rty) (v : variant) : outcome (list rty) :=
  match v_as v, v_type v with
  | Some u, _ => Ok (push (rsubst args u))
  | None, Some _ => Ok []
  | None, None => shape_deps args NotOptional (v_shape v)
  end.

Definition live_variants (vs : list variant) : list variant := filter (fun v => negb (v_skip v)) vs.

(* types/mod.rs: struct_def / enum_def, instantiated at the type arguments `args` *)
Definition def_body (d : typedef) (args : list rty) : outcome derived :=
  let a := attrs_of d in
  match c_type a, c_as a with
  | Some text, _ => Ok (TRaw text, None)
  | None, Some u => bind (inl (rsubst args u)) (fun x => Ok (x, None))
  | None, None =>
      match d with
      | DStruct a s =>
          shape_gen args (c_rename_all a) (c_optional_fields a)
            (match c_tag a with Some t => Some (t, ts_ident d) | None => None end) s
      | DEnum a tg raf vs =>
          match vs with
          | [] => Ok (prim "never", None)
          | _ =>
              bind (omap_list (variant_gen args a tg raf) (live_variants vs))
              (fun l => match l with
                        | [] => Ok (prim "never", None)       (* every variant is skipped *)
                        | _ => Ok (TUnion l, Some (TParen (TUnion l)))
                        end)
          end
      end
  end.

(* utils.rs: format_generics pushes the defaults of the type parameters *)
Definition default_deps (a : cattrs) (args : list rty) : list rty :=
  flat_map (fun p => match snd p with Some dflt => push (rsubst args dflt) | None => [] end) (c_params a).

Definition def_deps (d : typedef) (args : list rty) : outcome (list rty) :=
  let a := attrs_of d in
  omap (fun l => l ++ default_deps a args)
  match c_type a, c_as a with
  | Some _, _ => Ok []
  | None, Some u => vdp (rsubst args u)
  | None, None =>
      match d with
      | DStruct a s => shape_deps args (c_optional_fields a) s
      | DEnum a tg raf vs => oconcat (omap_list (variant_deps args) (live_variants vs))
      end
  end.
End Def.

(* ============================ the knot ===================================================== *)
Fixpoint gen (fuel : nat) : dgen :=
  match fuel with
  | O => fun _ _ => Panic p_out_of_fuel
  | S f => let g := gen f in def_body (lib_inline g) (lib_flat g)
  end.

Fixpoint deps (fuel : nat) : ddeps :=
  match fuel with
  | O => fun _ _ => Panic p_out_of_fuel
  | S f => let g := deps f in def_deps (lib_vdeps g)
  end.

Definition inline_of (fuel : nat) : rty -> outcome tsty := lib_inline (gen fuel).
Definition flat_of (fuel : nat) : rty -> outcome tsty := lib_flat (gen fuel).
Definition vdeps_of (fuel : nat) : rty -> outcome (list rty) := lib_vdeps (deps fuel).

(* --- public entry points ----------------------------------------------------------------- *)
Definition default_fuel : nat := 40.

Definition dummies (a : cattrs) : list rty := map (fun p => RDummy (fst p)) (c_params a).

(* lib.rs: generate_decl_fn — the type instantiated at dummy types named like its parameters *)
Definition decl_of (fuel : nat) (d : typedef) : outcome tsdecl :=
  let a := attrs_of d in
  bind (gen fuel d (dummies a)) (fun r =>
  bind (omap_list (fun p => match snd p with
                            | None => Ok (fst p, None)
                            | Some dflt => bind (name_of (rsubst (dummies a) dflt)) (fun x => Ok (fst p, Some x))
                            end) (c_params a)) (fun ps =>
  Ok {| d_docs := parse_docs (c_docs a); d_name := ts_ident d; d_params := ps; d_body := fst r |})).

Definition decl_text (fuel : nat) (d : typedef) : outcome str := omap print_decl (decl_of fuel d).

(* decl_concrete(): `type Name = inline();` at the given arguments *)
Definition decl_concrete_text (fuel : nat) (d : typedef) (args : list rty) : outcome str :=
  bind (gen fuel d args) (fun r =>
  Ok (lit "type " ++ ts_ident d ++ lit " = " ++ print (fst r) ++ lit ";")).

Definition name_text (t : rty) : outcome str := omap print (name_of t).
Definition inline_text (fuel : nat) (t : rty) : outcome str := omap print (inline_of fuel t).
Definition flat_text (fuel : nat) (t : rty) : outcome str := omap print (flat_of fuel t).

(* lib.rs: the generated output_path() *)
Definition output_path_of (d : typedef) : str :=
  match c_export_to (attrs_of d) with
  | None => ts_ident d ++ lit ".ts"
  | Some s => if ends_with (lit "/") s then s ++ ts_ident d ++ lit ".ts" else s
  end.

(* TS::output_path() of any type: only derived types are exportable *)
Definition out_path (t : rty) : option str :=
  match t with
  | RNamed id _ => match lookup R id with Some d => Some (output_path_of d) | None => None end
  | _ => None
  end.

Definition ident_of (t : rty) : str :=
  match t with
  | RNamed id _ => match lookup R id with Some d => ts_ident d | None => [] end
  | _ => []
  end.

(* TS::dependencies(): the exportable visited types as (type, ts_name, output_path) *)
Definition dependencies_of (fuel : nat) (t : rty) : outcome (list (rty * str * str)) :=
  omap (flat_map (fun u => match out_path u with Some p => [(u, ident_of u, p)] | None => [] end))
       (vdeps_of fuel t).

(* TS::WithoutGenerics of a derived type: every parameter replaced by ts_rs::Dummy *)
Definition without_generics (t : rty) : rty :=
  match t with
  | RNamed id args => RNamed id (map (fun _ => RDummy (lit "Dummy")) args)
  | t => t
  end.

End Gen.
