(* The derive macro and the library impls as a generator of TypeScript ASTs: TS::name(), inline(),
   inline_flattened(), decl(), decl_concrete() for every type of the fragment (Model/Rust.v).
   `print` of the result (Model/TsAst.v) is compared byte for byte with the implementation.
   Mirrors macros/src/types/{mod,named,newtype,tuple,unit,enum,type_as,type_override}.rs,
   macros/src/lib.rs (generate_decl_fn, name_with_generics, format_generics) and the hand-written
   impls of ts-rs/src/lib.rs.  Definitions only. *)
From TsRs Require Import Base.Str Base.Outcome Gen.Tables Model.Case Model.TsAst Model.Rust Model.Docs.

(* map with outcomes; `f` is a section parameter so that nested recursive calls through it are
   accepted by the guard checker (as for List.map) *)
Section OmapList.
Context {A B : Type} (f : A -> outcome B).
Fixpoint omap_list (l : list A) : outcome (list B) :=
  match l with
  | [] => Ok []
  | x :: r => match f x with
              | Ok y => match omap_list r with Ok ys => Ok (y :: ys) | Err m => Err m | Panic m => Panic m end
              | Err m => Err m
              | Panic m => Panic m
              end
  end.
End OmapList.

Section Gen.
(* Unicode classification used by the macro (char::is_uppercase / is_alphanumeric / is_numeric) *)
Variable is_upper : char -> bool.
Variable is_alnum : char -> bool.
Variable is_numeric : char -> bool.
Variable R : env.

Definition p_cannot_inline : str := lit "cannot be inlined".
Definition p_cannot_flatten : str := lit "cannot be flattened".
Definition p_out_of_fuel : str := lit "out of fuel".
Definition p_unknown_type : str := lit "unknown type".

Definition prim (s : String.string) : tsty := TPrim (lit s).
Arguments prim s%string.

Definition leaf_ts (l : leaf) : tsty :=
  match l with
  | LInt false _ _ => prim "number"
  | LInt true _ _ => prim "bigint"
  | LFloat => prim "number"
  | LBool => prim "boolean"
  | LString | LChar => prim "string"
  | LUnit => prim "null"
  end.

(* utils.rs: raw_name_to_ts_field *)
Definition raw_name_to_ts_field (value : str) : str :=
  let valid_chars := forallb (fun c => is_alnum c || (c =? 95) || (c =? 36)) value in
  let no_digit_start := match value with [] => true | c :: _ => negb (is_numeric c) end in
  if valid_chars && no_digit_start then value else [34] ++ value ++ [34].

Definition quoted_head (key : str) : phead :=
  {| p_docs := []; p_key := key; p_text := [34] ++ key ++ [34]; p_optional := false |}.

(* --- TS::name() -------------------------------------------------------------------------- *)
Fixpoint name_of (t : rty) : outcome tsty :=
  match t with
  | RLeaf l => Ok (leaf_ts l)
  | ROption t => bind (name_of t) (fun a => Ok (TUnion [a; prim "null"]))
  | RVec t => bind (name_of t) (fun a => Ok (TArray a))
  | RArray n t =>
      bind (name_of t) (fun a =>
      Ok (if Nat.ltb ARRAY_TUPLE_LIMIT n then TArray a else TTuple (repeat a n)))
  | RTuple ts => bind (omap_list name_of ts) (fun l => Ok (TTuple l))
  | RMap k v => bind (name_of k) (fun a => bind (name_of v) (fun b => Ok (TMapped a b)))
  | RWrap t => name_of t
  | RResult t e => bind (name_of t) (fun a => bind (name_of e) (fun b => Ok (TResult a b)))
  | RRange t =>
      bind (name_of t) (fun a =>
      let h k := {| p_docs := []; p_key := lit k; p_text := lit k; p_optional := false |} in
      Ok (TObj OStruct [(h "start"%string, a); (h "end"%string, a)]))
  | RNamed id args =>
      match lookup R id with
      | None => Panic p_unknown_type
      | Some d => bind (omap_list name_of args) (fun l => Ok (TRef (ts_ident d) l))
      end
  | RParam _ => Panic (lit "unsubstituted type parameter")
  | RDummy n => Ok (TVar n)
  end.

(* Option<T>::IS_OPTION / OptionInnerType *)
Definition is_option (t : rty) : bool := match t with ROption _ => true | _ => false end.
Definition option_inner (t : rty) : rty := match t with ROption u => u | _ => t end.

Definition field_key (rename_all : option rule) (f : field) : str :=
  match f_rename f, rename_all with
  | Some n, _ => n
  | None, Some r => apply_to_field r (f_ident f)
  | None, None => f_ident f
  end.

Definition variant_name (rename_all : option rule) (v : variant) : str :=
  match v_rename v, rename_all with
  | Some n, _ => n
  | None, Some r => apply_to_variant is_upper r (v_ident v)
  | None, None => v_ident v
  end.

(* what type_def returns: inline and (maybe) inline_flattened *)
Definition derived := (tsty * option tsty)%type.

(* --- TS::inline() / inline_flattened(); `fuel` bounds unfolding of named types ----------- *)
Fixpoint inline_of (fuel : nat) (t : rty) {struct fuel} : outcome tsty :=
  match fuel with
  | O => Panic p_out_of_fuel
  | S f =>
      let inl := inline_of f in
      let fix lib (t : rty) : outcome tsty :=
        match t with
        | RLeaf l => Ok (leaf_ts l)
        | ROption t => bind (lib t) (fun a => Ok (TUnion [a; prim "null"]))
        | RVec t => bind (lib t) (fun a => Ok (TArray a))
        | RArray n t =>
            bind (lib t) (fun a =>
            Ok (if Nat.ltb ARRAY_TUPLE_LIMIT n then TArray a else TTuple (repeat a n)))
        | RTuple _ => Panic (lit "tuple cannot be inlined!")
        | RMap k v => bind (lib k) (fun a => bind (lib v) (fun b => Ok (TMapped a b)))
        | RWrap t => lib t
        | RResult t e => bind (lib t) (fun a => bind (lib e) (fun b => Ok (TResult a b)))
        | RRange _ => Panic p_cannot_inline
        | RNamed id args =>
            match lookup R id with
            | None => Panic p_unknown_type
            | Some d => omap fst (def_gen f d args)
            end
        | RParam _ => Panic (lit "unsubstituted type parameter")
        | RDummy _ => Panic p_cannot_inline
        end in
      lib t
  end

with flat_of (fuel : nat) (t : rty) {struct fuel} : outcome tsty :=
  match fuel with
  | O => Panic p_out_of_fuel
  | S f =>
      let fix lib (t : rty) : outcome tsty :=
        match t with
        | RWrap t => lib t
        | RNamed id args =>
            match lookup R id with
            | None => Panic p_unknown_type
            | Some d =>
                bind (def_gen f d args) (fun r =>
                match snd r with Some x => Ok x | None => Panic p_cannot_flatten end)
            end
        | RDummy n => Ok (TVar n)
        | _ => Panic p_cannot_flatten
        end in
      lib t
  end

(* types/mod.rs: struct_def / enum_def, instantiated at type arguments `args` *)
with def_gen (fuel : nat) (d : typedef) (args : list rty) {struct fuel} : outcome derived :=
  match fuel with
  | O => Panic p_out_of_fuel
  | S f =>
      let a := attrs_of d in
      match c_type a, c_as a with
      | Some text, _ => Ok (TRaw text, None)
      | None, Some u => bind (inline_of f (rsubst args u)) (fun x => Ok (x, None))
      | None, None =>
          match d with
          | DStruct a s =>
              shape_gen f args (c_rename_all a) (c_optional_fields a)
                (match c_tag a with Some t => Some (t, ts_ident d) | None => None end) s
          | DEnum a tg raf vs =>
              match vs with
              | [] => Ok (prim "never", None)
              | _ =>
                  bind (omap_list (variant_gen f args a tg raf) (filter (fun v => negb (v_skip v)) vs))
                  (fun l => match l with
                            | [] => Ok (prim "never", None)
                            | _ => Ok (TUnion l, Some (TParen (TUnion l)))
                            end)
              end
          end
      end
  end

(* types/mod.rs: type_def dispatch on the shape of the fields; `tag` = (tag key, name) *)
with shape_gen (fuel : nat) (args : list rty) (rename_all : option rule) (opt : optional)
               (tag : option (str * str)) (s : shape) {struct fuel} : outcome derived :=
  match fuel with
  | O => Panic p_out_of_fuel
  | S f =>
      let value_ty (fl : field) : outcome tsty :=       (* newtype / tuple element *)
        match f_type fl with
        | Some text => Ok (TRaw text)
        | None => if f_inline fl then inline_of f (rsubst args (f_ty fl)) else name_of (rsubst args (f_ty fl))
        end in
      match s with
      | SUnit => Ok (prim "null", None)
      | STuple [] => Ok (TNeverArr, None)
      | STuple [fl] => if f_skip fl then Ok (prim "null", None) else bind (value_ty fl) (fun x => Ok (x, None))
      | STuple fs =>
          bind (omap_list value_ty (filter (fun fl => negb (f_skip fl)) fs)) (fun l => Ok (TTuple l, None))
      | SNamed fs =>
          match fs, tag with
          | [], None => Ok (TRecordNever, None)
          | _, _ =>
              let prop_of (fl : field) : outcome (phead * tsty) :=
                let key := field_key rename_all fl in
                let docs := parse_docs (f_docs fl) in
                match f_type fl with
                | Some text =>
                    Ok ({| p_docs := docs; p_key := key; p_text := raw_name_to_ts_field key; p_optional := false |}, TRaw text)
                | None =>
                    let ty := rsubst args (f_ty fl) in
                    let '(q, nullable) :=
                      match opt, f_optional fl with
                      | _, Optional n => (true, n)
                      | Optional n, NotOptional => (is_option ty, n)
                      | NotOptional, NotOptional => (false, true)
                      end in
                    let ty := if nullable then ty else option_inner ty in
                    bind (if f_inline fl then inline_of f ty else name_of ty) (fun x =>
                    Ok ({| p_docs := docs; p_key := key; p_text := raw_name_to_ts_field key; p_optional := q |}, x))
                end in
              let flat_ty (fl : field) : outcome tsty :=
                let ty := rsubst args (f_ty fl) in
                let nullable :=
                  match opt, f_optional fl with
                  | _, Optional n => n
                  | Optional n, NotOptional => n
                  | NotOptional, NotOptional => true
                  end in
                flat_of f (if nullable then ty else option_inner ty) in
              let live := filter (fun fl => negb (f_skip fl)) fs in
              bind (omap_list prop_of (filter (fun fl => negb (f_flatten fl)) live)) (fun props =>
              bind (omap_list flat_ty (filter f_flatten live)) (fun flats =>
              let props := match tag with
                           | Some (t, n) => (quoted_head t, TLit n) :: props
                           | None => props
                           end in
              let obj := TObj OStruct props in
              match props, flats with
              | _, [] => Ok (TMerged obj, Some (TMerged obj))
              | [], [x] => Ok (TMerged (TUnwrap x), Some (TMerged (TInter flats)))
              | [], _ => Ok (TMerged (TInter flats), Some (TMerged (TInter flats)))
              | _, _ => Ok (TMerged (TInter (obj :: flats)), Some (TMerged (TInter (obj :: flats))))
              end))
          end
      end
  end

(* types/enum.rs: format_variant *)
with variant_gen (fuel : nat) (args : list rty) (a : cattrs) (tg : tagging) (raf : option rule)
                 (v : variant) {struct fuel} : outcome tsty :=
  match fuel with
  | O => Panic p_out_of_fuel
  | S f =>
      let name := variant_name (c_rename_all a) v in
      let is_named := match v_shape v with SNamed _ => true | _ => false end in
      let rename_all := match v_rename_all v with Some r => Some r | None => if is_named then raf else None end in
      let tag := match tg, is_named with Internal t, true => Some (t, name) | _, _ => None end in
      bind (shape_gen f args rename_all NotOptional tag (v_shape v)) (fun vt =>
      bind (match v_as v, v_type v with
            | Some u, _ => name_of (rsubst args u)
            | None, Some text => Ok (TRaw text)
            | None, None => Ok (fst vt)
            end) (fun parsed =>
      let lone_skipped := match v_shape v with STuple [fl] => f_skip fl | _ => false end in
      let is_unit := match v_shape v with SUnit => true | _ => false end in
      let obj l := TObj OVariant l in
      if v_untagged v then Ok parsed else
      match tg with
      | Untagged => Ok parsed
      | External =>
          if is_unit || lone_skipped then Ok (TLit name) else Ok (obj [(quoted_head name, parsed)])
      | Adjacent t c =>
          if is_unit || lone_skipped then Ok (obj [(quoted_head t, TLit name)])
          else Ok (obj [(quoted_head t, TLit name); (quoted_head c, parsed)])
      | Internal t =>
          match snd vt with
          | Some _ => Ok parsed
          | None =>
              if is_unit || lone_skipped then Ok (obj [(quoted_head t, TLit name)])
              else Ok (TInter [obj [(quoted_head t, TLit name)]; parsed])
          end
      end))
  end.

(* --- public entry points ----------------------------------------------------------------- *)
Definition default_fuel : nat := 40.

(* lib.rs: generate_decl_fn — the type instantiated at dummy types named like its parameters *)
Definition decl_of (fuel : nat) (d : typedef) : outcome tsdecl :=
  let a := attrs_of d in
  let dummies := map (fun p => RDummy (fst p)) (c_params a) in
  bind (def_gen fuel d dummies) (fun r =>
  bind (omap_list (fun p => match snd p with
                            | None => Ok (fst p, None)
                            | Some dflt => bind (name_of dflt) (fun x => Ok (fst p, Some x))
                            end) (c_params a)) (fun ps =>
  Ok {| d_docs := parse_docs (c_docs a); d_name := ts_ident d; d_params := ps; d_body := fst r |})).

Definition decl_text (fuel : nat) (d : typedef) : outcome str := omap print_decl (decl_of fuel d).

(* decl_concrete(): `type Name = inline();` at the given arguments *)
Definition decl_concrete_text (fuel : nat) (d : typedef) (args : list rty) : outcome str :=
  bind (def_gen fuel d args) (fun r =>
  Ok (lit "type " ++ ts_ident d ++ lit " = " ++ print (fst r) ++ lit ";")).

Definition name_text (t : rty) : outcome str := omap print (name_of t).
Definition inline_text (fuel : nat) (t : rty) : outcome str := omap print (inline_of fuel t).
Definition flat_text (fuel : nat) (t : rty) : outcome str := omap print (flat_of fuel t).

(* lib.rs: the generated output_path() *)
Definition output_path_of (d : typedef) : str :=
  match c_export_to (attrs_of d) with
  | None => ts_ident d ++ lit ".ts"
  | Some s => if ends_with (lit "/") s then s ++ ts_ident d ++ lit ".ts" else s
  end.

End Gen.
