(* The supported fragment of Rust type definitions, with *parsed* attributes (how attribute
   token lists become these records is Model/Attr.v, properties C10/C16).  Definitions only. *)
From TsRs Require Import Base.Str Model.Case.

(* leaf types: rows of impl_primitives!, grouped by their serde representation *)
Inductive leaf :=
| LInt (big : bool) (lo hi : Z)   (* integers; big = 64/128-bit (TypeScript bigint) *)
| LFloat                          (* f32, f64 *)
| LBool
| LString                         (* String, str, Path, .. *)
| LChar
| LUnit.                          (* () *)

Inductive rty :=
| RLeaf (l : leaf)
| ROption (t : rty)
| RVec (t : rty)                  (* Vec, slices, sets *)
| RArray (n : nat) (t : rty)      (* [T; n] *)
| RTuple (ts : list rty)
| RMap (k v : rty)                (* HashMap, BTreeMap *)
| RWrap (t : rty)                 (* Box Rc Arc Cow Cell RefCell Mutex RwLock & : transparent *)
| RResult (t e : rty)
| RRange (t : rty)                (* Range, RangeInclusive *)
| RNamed (id : str) (args : list rty)   (* a derived type, by Rust identifier, with type arguments *)
| RParam (i : nat)                (* i-th type parameter of the enclosing definition *)
| RDummy (name : str).            (* the local dummy struct decl() substitutes for a parameter *)

Inductive optional := NotOptional | Optional (nullable : bool).

Record field := {
  f_ident : str;                  (* Rust identifier, `r#` removed *)
  f_ty : rty;                     (* the type ts-rs looks at (the `as` type if given) *)
  f_serde_ty : rty;               (* the type serde looks at *)
  f_rename : option str;
  f_skip : bool;
  f_inline : bool;
  f_flatten : bool;
  f_optional : optional;
  f_type : option str;            (* #[ts(type = "..")] *)
  f_docs : list str;              (* #[doc = ".."] values *)
  f_skip_none : bool              (* serde skip_serializing_if = "Option::is_none" (inert for ts-rs) *)
}.

Inductive shape :=
| SUnit
| STuple (fs : list field)
| SNamed (fs : list field).

Inductive tagging := External | Internal (tag : str) | Adjacent (tag content : str) | Untagged.

Record cattrs := {
  c_ident : str;                  (* Rust identifier, `r#` removed *)
  c_rename : option str;
  c_rename_all : option rule;
  c_tag : option str;             (* struct-level tag *)
  c_optional_fields : optional;
  c_docs : list str;
  c_export_to : option str;
  c_type : option str;
  c_as : option rty;
  c_params : list (str * option rty)   (* type parameters in order, with defaults *)
}.

Record variant := {
  v_ident : str;
  v_shape : shape;
  v_rename : option str;
  v_rename_all : option rule;
  v_skip : bool;
  v_untagged : bool;
  v_type : option str;
  v_as : option rty
}.

Inductive typedef :=
| DStruct (a : cattrs) (s : shape)
| DEnum (a : cattrs) (tg : tagging) (rename_all_fields : option rule) (vs : list variant).

Definition env := list (str * typedef).

Definition attrs_of (d : typedef) : cattrs := match d with DStruct a _ => a | DEnum a _ _ _ => a end.

Fixpoint lookup (R : env) (id : str) : option typedef :=
  match R with
  | [] => None
  | (k, d) :: r => if str_eqb k id then Some d else lookup r id
  end.

(* substitution of type arguments for parameters *)
Fixpoint rsubst (args : list rty) (t : rty) : rty :=
  match t with
  | RLeaf l => RLeaf l
  | ROption t => ROption (rsubst args t)
  | RVec t => RVec (rsubst args t)
  | RArray n t => RArray n (rsubst args t)
  | RTuple ts => RTuple (map (rsubst args) ts)
  | RMap k v => RMap (rsubst args k) (rsubst args v)
  | RWrap t => RWrap (rsubst args t)
  | RResult t e => RResult (rsubst args t) (rsubst args e)
  | RRange t => RRange (rsubst args t)
  | RNamed id l => RNamed id (map (rsubst args) l)
  | RParam i => nth i args (RParam i)
  | RDummy n => RDummy n
  end.

Definition ts_ident (d : typedef) : str :=
  match c_rename (attrs_of d) with Some n => n | None => c_ident (attrs_of d) end.
