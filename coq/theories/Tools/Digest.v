(* Digests for the correspondence check (run-time cases files only; no theorem depends on this
   file).  Polynomial hash in the VM's primitive 63-bit integers, mirrored by tools/vlib.py. *)
From Coq Require Import List NArith ZArith Uint63.
Import ListNotations.

Definition dg_char (h : int) (c : N) : int := (h * 1000003 + of_Z (Z.of_N c) + 1)%uint63.
Definition dg_str (h : int) (s : list N) : int := (fold_left dg_char s h * 1000003)%uint63.
Definition dg_list (l : list (list N)) : Z := to_Z (fold_left dg_str l 7%uint63).

Fixpoint take {A} (n : nat) (l : list A) : list A :=
  match n, l with O, _ => [] | _, [] => [] | S n', x :: r => x :: take n' r end.
Fixpoint drop {A} (n : nat) (l : list A) : list A :=
  match n, l with O, _ => l | _, [] => [] | S n', _ :: r => drop n' r end.
Fixpoint chunks_fuel {A} (fuel n : nat) (l : list A) : list (list A) :=
  match fuel with
  | O => []
  | S f => match l with [] => [] | _ => take n l :: chunks_fuel f n (drop n l) end
  end.
Definition chunks {A} (n : nat) (l : list A) : list (list A) := chunks_fuel (length l) n l.

(* all strings over an alphabet, in the order of Python's itertools.product *)
Fixpoint strings_of_len {A} (al : list A) (k : nat) : list (list A) :=
  match k with
  | O => [[]]
  | S k' => flat_map (fun c => map (cons c) (strings_of_len al k')) al
  end.
Definition strings_upto {A} (al : list A) (n : nat) : list (list A) :=
  flat_map (strings_of_len al) (seq 0 (S n)).
