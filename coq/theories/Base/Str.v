(* Strings as lists of Unicode scalar values, with the Rust `str` operations the models need.
   Every function is total and computable; Rust semantics are documented at each definition. *)
From Coq Require Export List NArith ZArith Bool Lia.
Export ListNotations.
Open Scope N_scope.

Definition char := N.
Definition str := list char.

Arguments N.add : simpl never.
Arguments N.sub : simpl never.
Arguments N.eqb : simpl never.
Arguments N.ltb : simpl never.
Arguments N.leb : simpl never.

(* --- equality ---------------------------------------------------------------------------- *)
Fixpoint str_eqb (a b : str) : bool :=
  match a, b with
  | [], [] => true
  | x :: a', y :: b' => (x =? y) && str_eqb a' b'
  | _, _ => false
  end.

Lemma str_eqb_spec a b : reflect (a = b) (str_eqb a b).
Proof.
  revert b; induction a as [|x a IH]; intros [|y b]; cbn [str_eqb]; try (constructor; congruence).
  destruct (N.eqb_spec x y) as [->|Hne]; cbn [andb].
  - destruct (IH b) as [->|Hne]; constructor; congruence.
  - constructor; congruence.
Qed.

Lemma str_eqb_eq a b : str_eqb a b = true <-> a = b.
Proof. destruct (str_eqb_spec a b); split; congruence. Qed.

Lemma str_eqb_refl a : str_eqb a a = true.
Proof. apply str_eqb_eq; reflexivity. Qed.

Definition str_eq_dec (a b : str) : {a = b} + {a <> b}.
Proof. destruct (str_eqb_spec a b); [left|right]; assumption. Defined.

(* --- ASCII case mapping (char::to_ascii_lowercase / to_ascii_uppercase) ----------------- *)
Definition is_ascii_upper (c : char) : bool := (65 <=? c) && (c <=? 90).
Definition is_ascii_lower (c : char) : bool := (97 <=? c) && (c <=? 122).
Definition is_ascii_digit (c : char) : bool := (48 <=? c) && (c <=? 57).
Definition ascii_lower (c : char) : char := if is_ascii_upper c then c + 32 else c.
Definition ascii_upper (c : char) : char := if is_ascii_lower c then c - 32 else c.
Definition to_ascii_lowercase (s : str) : str := map ascii_lower s.
Definition to_ascii_uppercase (s : str) : str := map ascii_upper s.

(* str::replace(char, &str) for a single-character pattern *)
Definition replace_char (from : char) (to : str) (s : str) : str :=
  flat_map (fun c => if c =? from then to else [c]) s.

(* UTF-8 encoded length of one scalar value *)
Definition utf8_len (c : char) : N :=
  if c <? 128 then 1 else if c <? 2048 then 2 else if c <? 65536 then 3 else 4.
Definition utf8_size (s : str) : N := fold_right (fun c n => utf8_len c + n) 0 s.

(* --- prefixes, suffixes ----------------------------------------------------------------- *)
Fixpoint starts_with (p s : str) : bool :=
  match p, s with
  | [], _ => true
  | x :: p', y :: s' => (x =? y) && starts_with p' s'
  | _ :: _, [] => false
  end.

Definition ends_with (p s : str) : bool := starts_with (rev p) (rev s).

Lemma starts_with_spec p s : starts_with p s = true <-> exists r, s = p ++ r.
Proof.
  revert s; induction p as [|x p IH]; intros s; cbn [starts_with].
  - split; [exists s; reflexivity | reflexivity].
  - destruct s as [|y s].
    + split; [discriminate | intros [r Hr]; discriminate].
    + rewrite andb_true_iff, N.eqb_eq, IH. split.
      * intros [-> [r ->]]. exists r; reflexivity.
      * intros [r Hr]. cbn in Hr. injection Hr as -> ->. split; [reflexivity | exists r; reflexivity].
Qed.

Lemma ends_with_spec p s : ends_with p s = true <-> exists r, s = r ++ p.
Proof.
  unfold ends_with. rewrite starts_with_spec. split.
  - intros [r Hr]. exists (rev r). apply (f_equal (@rev _)) in Hr.
    rewrite rev_involutive, rev_app_distr, rev_involutive in Hr. exact Hr.
  - intros [r ->]. exists (rev r). rewrite rev_app_distr. reflexivity.
Qed.

(* strip one occurrence of prefix p *)
Fixpoint strip_prefix (p s : str) : option str :=
  match p, s with
  | [], _ => Some s
  | x :: p', y :: s' => if x =? y then strip_prefix p' s' else None
  | _ :: _, [] => None
  end.

Lemma strip_prefix_spec p s r : strip_prefix p s = Some r <-> s = p ++ r.
Proof.
  revert s; induction p as [|x p IH]; intros s; cbn [strip_prefix].
  - cbn. split; congruence.
  - destruct s as [|y s]; [split; [discriminate | cbn; discriminate]|].
    destruct (N.eqb_spec x y) as [->|Hne].
    + rewrite IH. cbn. split; [intros ->; reflexivity | intros H; injection H as ->; reflexivity].
    + split; [discriminate | cbn; intros H; injection H as H _; congruence].
Qed.

Definition strip_suffix (p s : str) : option str :=
  match strip_prefix (rev p) (rev s) with Some r => Some (rev r) | None => None end.

(* str::trim_start_matches(pat: &str): strips the prefix repeatedly (fuel = length s). An empty
   pattern is never used by the modelled code; it returns s. *)
Fixpoint trim_start_matches_fuel (fuel : nat) (p s : str) : str :=
  match fuel with
  | O => s
  | S f => match p with
           | [] => s
           | _ => match strip_prefix p s with
                  | Some r => trim_start_matches_fuel f p r
                  | None => s
                  end
           end
  end.
Definition trim_start_matches (p s : str) : str := trim_start_matches_fuel (length s) p s.
Definition trim_end_matches (p s : str) : str := rev (trim_start_matches (rev p) (rev s)).

(* trim_start_matches / trim_end_matches / trim_matches for a set of characters *)
Fixpoint trim_start_chars (f : char -> bool) (s : str) : str :=
  match s with
  | c :: r => if f c then trim_start_chars f r else s
  | [] => []
  end.
Definition trim_end_chars (f : char -> bool) (s : str) : str := rev (trim_start_chars f (rev s)).
Definition trim_chars (f : char -> bool) (s : str) : str := trim_end_chars f (trim_start_chars f s).

(* --- searching and splitting ------------------------------------------------------------- *)
(* str::split_once(pat): first occurrence, leftmost *)
Fixpoint split_once (p s : str) : option (str * str) :=
  match strip_prefix p s with
  | Some r => Some ([], r)
  | None => match s with
            | [] => None
            | c :: s' => match split_once p s' with
                         | Some (a, b) => Some (c :: a, b)
                         | None => None
                         end
            end
  end.

Definition contains (p s : str) : bool := match split_once p s with Some _ => true | None => false end.

(* str::split(pat) for a non-empty pattern: non-overlapping, left to right; always at least one
   piece. Fuel = length of s (each split consumes at least one character). *)
Fixpoint split_fuel (fuel : nat) (p s : str) : list str :=
  match fuel with
  | O => [s]
  | S f => match split_once p s with
           | Some (a, b) => a :: split_fuel f p b
           | None => [s]
           end
  end.
Definition split (p s : str) : list str := split_fuel (S (length s)) p s.

(* slice::join / str::join *)
Fixpoint join (sep : str) (l : list str) : str :=
  match l with
  | [] => []
  | [x] => x
  | x :: r => x ++ sep ++ join sep r
  end.

(* str::replace(from, to) for a non-empty pattern *)
Definition replace (from to s : str) : str := join to (split from s).

(* --- ordering: Rust compares &str by bytes; UTF-8 preserves code-point order ------------ *)
Fixpoint str_compare (a b : str) : comparison :=
  match a, b with
  | [], [] => Eq
  | [], _ :: _ => Lt
  | _ :: _, [] => Gt
  | x :: a', y :: b' => match x ?= y with Eq => str_compare a' b' | c => c end
  end.
Definition str_ltb (a b : str) : bool := match str_compare a b with Lt => true | _ => false end.
Definition str_leb (a b : str) : bool := match str_compare a b with Gt => false | _ => true end.

Lemma str_compare_eq a b : str_compare a b = Eq <-> a = b.
Proof.
  revert b; induction a as [|x a IH]; intros [|y b]; cbn; try (split; congruence).
  destruct (N.compare_spec x y) as [->|H|H].
  - rewrite IH. split; congruence.
  - split; [discriminate | intros E; injection E as -> _; lia].
  - split; [discriminate | intros E; injection E as -> _; lia].
Qed.

Lemma str_compare_antisym a b : str_compare b a = CompOpp (str_compare a b).
Proof.
  revert b; induction a as [|x a IH]; intros [|y b]; cbn; try reflexivity.
  rewrite (N.compare_antisym x y). destruct (x ?= y); cbn; auto.
Qed.

Lemma str_compare_trans a b c : str_compare a b = Lt -> str_compare b c = Lt -> str_compare a c = Lt.
Proof.
  revert b c; induction a as [|x a IH]; intros [|y b] [|z c]; cbn; try congruence.
  destruct (N.compare_spec x y) as [->|H1|H1]; try discriminate.
  - destruct (N.compare_spec y z) as [->|H2|H2]; try discriminate; auto. apply IH.
  - destruct (N.compare_spec y z) as [->|H2|H2]; try discriminate; intros _ _.
    + destruct (N.compare_spec x z); try lia; reflexivity.
    + destruct (N.compare_spec x z); try lia; reflexivity.
Qed.

(* ASCII literals: `lit "abc"` *)
From Coq Require Strings.String Strings.Ascii.
Fixpoint lit (s : String.string) : str :=
  match s with
  | String.EmptyString => []
  | String.String a r => Ascii.N_of_ascii a :: lit r
  end.
(* the string-literal notation without importing String's list-shadowing names *)
Export String.StringSyntax.
Delimit Scope string_scope with string.
Arguments lit s%string.

(* --- lines, whitespace ------------------------------------------------------------------- *)
Definition nl : char := 10.
Definition cr : char := 13.

(* pieces between occurrences of a character; always at least one piece *)
Fixpoint split_char (d : char) (s : str) : list str :=
  match s with
  | [] => [[]]
  | c :: r =>
      if c =? d then [] :: split_char d r
      else match split_char d r with
           | p :: ps => (c :: p) :: ps
           | [] => [[c]]
           end
  end.

Definition strip_cr (s : str) : str :=
  match rev s with c :: r => if c =? cr then rev r else s | [] => s end.

(* str::lines: split at '\n', a final empty piece is dropped, one trailing '\r' per line too *)
Definition lines (s : str) : list str :=
  let ps := split_char nl s in
  let ps := match rev ps with [] :: r => rev r | _ => ps end in
  map strip_cr ps.

(* char::is_whitespace: the Unicode White_Space property (stable set) *)
Definition is_whitespace (c : char) : bool :=
  ((9 <=? c) && (c <=? 13)) || (c =? 32) || (c =? 133) || (c =? 160) || (c =? 5760) ||
  ((8192 <=? c) && (c <=? 8202)) || (c =? 8232) || (c =? 8233) || (c =? 8239) || (c =? 8287) || (c =? 12288).

Fixpoint take_while (f : char -> bool) (s : str) : str :=
  match s with c :: r => if f c then c :: take_while f r else [] | [] => [] end.

(* str::split_whitespace().next() *)
Definition first_token (s : str) : option str :=
  match take_while (fun c => negb (is_whitespace c)) (trim_start_chars is_whitespace s) with
  | [] => None
  | t => Some t
  end.

Definition last_piece (l : list str) : str := last l [].

(* --- generic facts about prefixes, suffixes and trimming (used by Proofs/Path_proofs.v) ---- *)
Lemma starts_with_false_strip p s : starts_with p s = false -> strip_prefix p s = None.
Proof.
  revert s; induction p as [|x p IH]; intros s; cbn [starts_with strip_prefix]; [discriminate|].
  destruct s as [|y s]; [reflexivity|].
  destruct (x =? y); cbn [andb]; [apply IH | reflexivity].
Qed.

Lemma strip_prefix_app p s : strip_prefix p (p ++ s) = Some s.
Proof. apply strip_prefix_spec; reflexivity. Qed.

Lemma trim_start_fuel_none f p s : starts_with p s = false -> trim_start_matches_fuel f p s = s.
Proof.
  intros H. destruct f; cbn [trim_start_matches_fuel]; [reflexivity|].
  destruct p; [reflexivity|]. rewrite (starts_with_false_strip _ _ H). reflexivity.
Qed.

Lemma trim_start_fuel_step f p s :
  p <> [] -> trim_start_matches_fuel (S f) p (p ++ s) = trim_start_matches_fuel f p s.
Proof.
  intros H. cbn [trim_start_matches_fuel]. destruct p as [|c p]; [congruence|].
  rewrite strip_prefix_app. reflexivity.
Qed.

Lemma trim_start_matches_none p s : starts_with p s = false -> trim_start_matches p s = s.
Proof. intros H. apply trim_start_fuel_none; exact H. Qed.

Lemma trim_start_matches_once p s :
  p <> [] -> starts_with p s = false -> trim_start_matches p (p ++ s) = s.
Proof.
  intros Hp H. unfold trim_start_matches. destruct p as [|c p]; [congruence|].
  change (length ((c :: p) ++ s)) with (S (length (p ++ s))).
  rewrite trim_start_fuel_step by discriminate. apply trim_start_fuel_none; exact H.
Qed.

Lemma trim_end_matches_none p s : ends_with p s = false -> trim_end_matches p s = s.
Proof.
  intros H. unfold trim_end_matches. rewrite trim_start_matches_none by exact H.
  apply rev_involutive.
Qed.

Lemma trim_end_matches_once p s :
  p <> [] -> ends_with p s = false -> trim_end_matches p (s ++ p) = s.
Proof.
  intros Hp H. unfold trim_end_matches. rewrite rev_app_distr.
  rewrite trim_start_matches_once; [apply rev_involutive | | exact H].
  intros E. apply Hp. apply (f_equal (@rev _)) in E. rewrite rev_involutive in E. exact E.
Qed.

Lemma starts_with_app_notin p a c b : ~ In c p -> starts_with p (a ++ c :: b) = starts_with p a.
Proof.
  revert a; induction p as [|x p IH]; intros a Hc; [reflexivity|].
  destruct a as [|y a]; cbn [app starts_with].
  - destruct (N.eqb_spec x c) as [->|Hne]; [exfalso; apply Hc; left; reflexivity | reflexivity].
  - rewrite IH; [reflexivity | intros Hin; apply Hc; right; exact Hin].
Qed.

Lemma ends_with_app_notin p a c b : ~ In c p -> ends_with p (a ++ c :: b) = ends_with p b.
Proof.
  intros Hc. unfold ends_with. rewrite rev_app_distr. cbn [rev]. rewrite <- app_assoc.
  cbn [app]. apply starts_with_app_notin. rewrite <- in_rev. exact Hc.
Qed.

Lemma strip_suffix_app p s : strip_suffix p (s ++ p) = Some s.
Proof.
  unfold strip_suffix. rewrite rev_app_distr, strip_prefix_app, rev_involutive. reflexivity.
Qed.

(* ===== appended: generic facts used by Proofs/Merge_bridge_proofs.v ======================== *)

(* --- sizes --- *)
Lemma utf8_size_app a b : utf8_size (a ++ b) = utf8_size a + utf8_size b.
Proof.
  unfold utf8_size. induction a as [|x a IH]; cbn [app fold_right]; [|rewrite IH]; lia.
Qed.

Lemma utf8_size_cons c s : utf8_size (c :: s) = utf8_len c + utf8_size s.
Proof. reflexivity. Qed.

Lemma utf8_size_nil : utf8_size [] = 0.
Proof. reflexivity. Qed.

Lemma utf8_size_ascii s : forallb (fun c => c <? 128) s = true -> utf8_size s = N.of_nat (length s).
Proof.
  induction s as [|c s IH]; [reflexivity|]. cbn [forallb]. rewrite andb_true_iff. intros [Hc Hs].
  rewrite utf8_size_cons, IH by exact Hs. unfold utf8_len. rewrite Hc.
  cbn [length]. lia.
Qed.

(* --- membership as a boolean (to discharge `~ In c (lit "...")` by computation) --- *)
Definition memb (c : char) (s : str) : bool := existsb (N.eqb c) s.

Lemma memb_In c s : memb c s = true <-> In c s.
Proof.
  unfold memb. rewrite existsb_exists. split.
  - intros [x [Hin Hx]]. apply N.eqb_eq in Hx. subst x. exact Hin.
  - intros Hin. exists c. split; [exact Hin | apply N.eqb_refl].
Qed.

Lemma memb_false_notin c s : memb c s = false -> ~ In c s.
Proof. intros H Hin. apply memb_In in Hin. congruence. Qed.

(* --- starts_with --- *)
Lemma starts_with_app p r : starts_with p (p ++ r) = true.
Proof. apply starts_with_spec. exists r. reflexivity. Qed.

Lemma starts_with_In p s c : starts_with p s = true -> In c p -> In c s.
Proof.
  intros H Hin. apply starts_with_spec in H. destruct H as [r ->]. apply in_or_app. left. exact Hin.
Qed.

(* a token without the delimiter c, followed by d, against a pattern whose first c-free
   token is w *)
Lemma starts_with_token c d w w' n r :
  ~ In c n -> ~ In c w -> ~ In d w ->
  starts_with (w ++ c :: w') (n ++ d :: r) = true ->
  w = n /\ c = d /\ starts_with w' r = true.
Proof.
  revert n; induction w as [|x w IH]; intros n Hn Hw Hd H.
  - destruct n as [|y n]; cbn [app starts_with] in H; apply andb_true_iff in H; destruct H as [H1 H2];
      apply N.eqb_eq in H1.
    + auto.
    + exfalso. apply Hn. left. symmetry. exact H1.
  - destruct n as [|y n]; cbn [app starts_with] in H; apply andb_true_iff in H; destruct H as [H1 H2];
      apply N.eqb_eq in H1.
    + exfalso. apply Hd. left. exact H1.
    + subst y. destruct (IH n) as [-> [-> H3]]; auto.
      * intros Hin. apply Hn. right. exact Hin.
      * intros Hin. apply Hw. right. exact Hin.
      * intros Hin. apply Hd. right. exact Hin.
Qed.

(* --- split_once --- *)
Definition pre_pair (x : str) (o : option (str * str)) : option (str * str) :=
  match o with Some (a, b) => Some (x ++ a, b) | None => None end.

Lemma split_once_unfold p s :
  split_once p s =
  match strip_prefix p s with
  | Some r => Some ([], r)
  | None => match s with
            | [] => None
            | c :: s' => pre_pair [c] (split_once p s')
            end
  end.
Proof. destruct s; reflexivity. Qed.

Lemma split_once_hit p b : split_once p (p ++ b) = Some ([], b).
Proof. rewrite split_once_unfold, strip_prefix_app. reflexivity. Qed.

(* skipping characters that are not the first character of the pattern *)
Lemma split_once_skip c p x s :
  ~ In c x -> split_once (c :: p) (x ++ s) = pre_pair x (split_once (c :: p) s).
Proof.
  induction x as [|y x IH]; intros H.
  - cbn [app]. unfold pre_pair. destruct (split_once (c :: p) s) as [[a b]|]; reflexivity.
  - cbn [app]. rewrite split_once_unfold. cbn [strip_prefix].
    destruct (N.eqb_spec c y) as [->|Hne].
    + exfalso; apply H; left; reflexivity.
    + rewrite IH by (intros Hin; apply H; right; exact Hin).
      unfold pre_pair. destruct (split_once (c :: p) s) as [[a b]|]; reflexivity.
Qed.

(* the first character matches but the rest of the pattern does not *)
Lemma split_once_step c p s :
  starts_with p s = false -> split_once (c :: p) (c :: s) = pre_pair [c] (split_once (c :: p) s).
Proof.
  intros H. rewrite split_once_unfold. cbn [strip_prefix]. rewrite N.eqb_refl.
  rewrite (starts_with_false_strip _ _ H). reflexivity.
Qed.

Lemma split_once_none_notin c p x : ~ In c x -> split_once (c :: p) x = None.
Proof.
  intros H. rewrite <- (app_nil_r x), split_once_skip by exact H. reflexivity.
Qed.

Lemma split_once_sound p s a b : split_once p s = Some (a, b) -> s = a ++ p ++ b.
Proof.
  revert a; induction s as [|c s IH]; intros a; rewrite split_once_unfold.
  - destruct (strip_prefix p []) as [r|] eqn:E; [|discriminate].
    intros H; injection H as <- <-. apply strip_prefix_spec in E. exact E.
  - destruct (strip_prefix p (c :: s)) as [r|] eqn:E.
    + intros H; injection H as <- <-. apply strip_prefix_spec in E. exact E.
    + unfold pre_pair. destruct (split_once p s) as [[a' b']|]; [|discriminate].
      intros H; injection H as <- <-. rewrite (IH a' eq_refl). reflexivity.
Qed.

(* a doubled character as pattern: the text before the first occurrence *)
Lemma contains_unfold_cons p c s :
  contains p (c :: s) = false -> strip_prefix p (c :: s) = None /\ contains p s = false.
Proof.
  unfold contains. rewrite split_once_unfold.
  destruct (strip_prefix p (c :: s)); [discriminate|].
  unfold pre_pair. destruct (split_once p s) as [[a b]|]; [discriminate|]. auto.
Qed.

Lemma ends_with_cons p c s : s <> [] -> ends_with [p] (c :: s) = ends_with [p] s.
Proof.
  intros Hs. destruct (@exists_last _ s Hs) as [s' [z ->]].
  unfold ends_with. change (c :: s' ++ [z]) with ((c :: s') ++ [z]).
  rewrite !rev_app_distr. reflexivity.
Qed.

Lemma ends_with_single_snoc p s z : ends_with [p] (s ++ [z]) = (p =? z).
Proof.
  unfold ends_with. rewrite rev_app_distr. cbn [rev app starts_with]. apply andb_true_r.
Qed.

Lemma split_once_double c a b :
  contains [c; c] a = false -> ends_with [c] a = false ->
  split_once [c; c] (a ++ [c; c] ++ b) = Some (a, b).
Proof.
  induction a as [|x a IH]; intros Hc He.
  - exact (split_once_hit [c; c] b).
  - apply contains_unfold_cons in Hc. destruct Hc as [Hs Hc].
    destruct a as [|y a].
    + (* a = [x], x <> c *)
      change [x] with ([] ++ [x]) in He. rewrite ends_with_single_snoc in He.
      apply N.eqb_neq in He.
      change (([x]) ++ [c; c] ++ b) with ([x] ++ ([c; c] ++ b)).
      rewrite split_once_skip.
      * rewrite split_once_hit. reflexivity.
      * intros [H|[]]. congruence.
    + rewrite ends_with_cons in He by discriminate.
      specialize (IH Hc He).
      cbn [app]. rewrite split_once_unfold.
      cbn [app] in IH. rewrite IH. cbn [strip_prefix].
      cbn [strip_prefix] in Hs.
      destruct (c =? x); [|reflexivity].
      destruct (c =? y); [discriminate|reflexivity].
Qed.

Lemma contains_double_snoc c a :
  contains [c; c] a = false -> ends_with [c] a = false -> contains [c; c] (a ++ [c]) = false.
Proof.
  induction a as [|x a IH]; intros Hc He.
  - unfold contains. cbn [app]. rewrite split_once_unfold. cbn [strip_prefix].
    destruct (c =? c); reflexivity.
  - apply contains_unfold_cons in Hc. destruct Hc as [Hs Hc].
    assert (He' : ends_with [c] a = false).
    { destruct a as [|y a]; [reflexivity|]. rewrite ends_with_cons in He by discriminate. exact He. }
    specialize (IH Hc He'). unfold contains in IH |- *.
    cbn [app]. rewrite split_once_unfold.
    destruct (split_once [c; c] (a ++ [c])) as [[u v]|]; [discriminate|].
    cbn [strip_prefix].
    destruct (N.eqb_spec c x) as [->|Hne]; [|reflexivity].
    destruct a as [|y a].
    + unfold ends_with in He. cbn [rev app starts_with] in He. rewrite N.eqb_refl in He.
      discriminate.
    + cbn [app strip_prefix]. cbn [strip_prefix] in Hs. rewrite N.eqb_refl in Hs.
      destruct (x =? y); [discriminate|reflexivity].
Qed.

(* --- split --- *)
Lemma split_fuel_irrel p :
  p <> [] -> forall f1 f2 s, (length s < f1)%nat -> (length s < f2)%nat ->
  split_fuel f1 p s = split_fuel f2 p s.
Proof.
  intros Hp. induction f1 as [|f1 IH]; intros f2 s H1 H2; [lia|].
  destruct f2 as [|f2]; [lia|]. cbn [split_fuel].
  destruct (split_once p s) as [[a b]|] eqn:E; [|reflexivity].
  apply split_once_sound in E. f_equal. apply IH.
  - subst s. rewrite !app_length in H1. destruct p; [congruence|]. cbn [length] in H1. lia.
  - subst s. rewrite !app_length in H2. destruct p; [congruence|]. cbn [length] in H2. lia.
Qed.

Lemma split_fuel_S f p s :
  split_fuel (S f) p s =
  match split_once p s with Some (a, b) => a :: split_fuel f p b | None => [s] end.
Proof. reflexivity. Qed.

Lemma split_cons p s a b : p <> [] -> split_once p s = Some (a, b) -> split p s = a :: split p b.
Proof.
  intros Hp E. unfold split. rewrite (split_fuel_S (length s)). rewrite E. f_equal.
  apply split_fuel_irrel; [exact Hp | | lia].
  apply split_once_sound in E. subst s. rewrite !app_length. destruct p; [congruence|].
  cbn [length]. lia.
Qed.

Lemma split_none p s : split_once p s = None -> split p s = [s].
Proof. intros E. unfold split. cbn [split_fuel]. rewrite E. reflexivity. Qed.

(* --- join --- *)
Lemma join_cons2 sep x y r : join sep (x :: y :: r) = x ++ sep ++ join sep (y :: r).
Proof. reflexivity. Qed.

Lemma join_snoc sep l x : l <> [] -> join sep (l ++ [x]) = join sep l ++ sep ++ x.
Proof.
  induction l as [|y l IH]; intros H; [congruence|].
  destruct l as [|z l].
  - reflexivity.
  - change ((y :: z :: l) ++ [x]) with (y :: z :: (l ++ [x])).
    rewrite !join_cons2. change (z :: l ++ [x]) with ((z :: l) ++ [x]).
    rewrite IH by discriminate. rewrite !app_assoc. reflexivity.
Qed.

Lemma In_join c sep l : In c (join sep l) -> In c sep \/ exists x, In x l /\ In c x.
Proof.
  induction l as [|x l IH]; [intros []|].
  destruct l as [|y l].
  - intros H. right. exists x. split; [left; reflexivity | exact H].
  - rewrite join_cons2. intros H. apply in_app_or in H. destruct H as [H|H].
    + right. exists x. split; [left; reflexivity | exact H].
    + apply in_app_or in H. destruct H as [H|H]; [left; exact H|].
      destruct (IH H) as [H'|[z [Hz Hc]]]; [left; exact H'|].
      right. exists z. split; [right; exact Hz | exact Hc].
Qed.

(* split undoes join when the pieces avoid the first character of the separator *)
Lemma split_join c sep l :
  l <> [] -> (forall x, In x l -> ~ In c x) -> split (c :: sep) (join (c :: sep) l) = l.
Proof.
  induction l as [|x l IH]; intros Hl H; [congruence|].
  destruct l as [|y l].
  - cbn [join]. apply split_none. apply split_once_none_notin. apply H. left. reflexivity.
  - rewrite join_cons2. rewrite (split_cons (c :: sep) _ x (join (c :: sep) (y :: l))).
    + f_equal. apply IH; [discriminate|]. intros z Hz. apply H. right. exact Hz.
    + discriminate.
    + rewrite split_once_skip by (apply H; left; reflexivity).
      rewrite split_once_hit. unfold pre_pair. rewrite app_nil_r. reflexivity.
Qed.

(* --- trimming by character class --- *)
Lemma trim_start_chars_stop f c r : f c = false -> trim_start_chars f (c :: r) = c :: r.
Proof. intros H. cbn [trim_start_chars]. rewrite H. reflexivity. Qed.

Lemma trim_start_chars_go f c r : f c = true -> trim_start_chars f (c :: r) = trim_start_chars f r.
Proof. intros H. cbn [trim_start_chars]. rewrite H. reflexivity. Qed.

Lemma trim_end_chars_stop f s c : f c = false -> trim_end_chars f (s ++ [c]) = s ++ [c].
Proof.
  intros H. unfold trim_end_chars. rewrite rev_app_distr. cbn [rev app].
  rewrite trim_start_chars_stop by exact H.
  change (c :: rev s) with ([c] ++ rev s). rewrite rev_app_distr, rev_involutive. reflexivity.
Qed.

Lemma trim_end_chars_go f s c : f c = true -> trim_end_chars f (s ++ [c]) = trim_end_chars f s.
Proof.
  intros H. unfold trim_end_chars. rewrite rev_app_distr. cbn [rev app].
  rewrite trim_start_chars_go by exact H. reflexivity.
Qed.

Lemma trim_end_chars_nil f : trim_end_chars f [] = [].
Proof. reflexivity. Qed.

(* --- split_char, lines --- *)
Lemma split_char_notin d l : ~ In d l -> split_char d l = [l].
Proof.
  induction l as [|c l IH]; intros H; [reflexivity|].
  cbn [split_char]. destruct (N.eqb_spec c d) as [->|Hne].
  - exfalso. apply H. left. reflexivity.
  - rewrite IH by (intros Hin; apply H; right; exact Hin). reflexivity.
Qed.

Lemma split_char_app d l s : ~ In d l -> split_char d (l ++ d :: s) = l :: split_char d s.
Proof.
  induction l as [|c l IH]; intros H.
  - cbn [app split_char]. rewrite N.eqb_refl. reflexivity.
  - cbn [app split_char]. destruct (N.eqb_spec c d) as [->|Hne].
    + exfalso. apply H. left. reflexivity.
    + rewrite IH by (intros Hin; apply H; right; exact Hin). reflexivity.
Qed.

Lemma strip_cr_snoc s c : c <> cr -> strip_cr (s ++ [c]) = s ++ [c].
Proof.
  intros H. unfold strip_cr. rewrite rev_app_distr. cbn [rev app].
  apply N.eqb_neq in H. rewrite H. reflexivity.
Qed.

(* lines of a text whose split_char pieces are all non-empty *)
Lemma lines_of_pieces s ps :
  split_char nl s = ps -> (forall x, In x ps -> x <> []) -> lines s = map strip_cr ps.
Proof.
  intros E H. unfold lines. rewrite E.
  destruct (rev ps) as [|y r] eqn:Er; [reflexivity|].
  assert (Hy : In y ps) by (apply in_rev; rewrite Er; left; reflexivity).
  apply H in Hy. destruct y; [congruence | reflexivity].
Qed.

(* --- trimming twice; join undoes split --- *)
Lemma trim_start_matches_twice p s :
  p <> [] -> starts_with p s = false -> trim_start_matches p (p ++ p ++ s) = s.
Proof.
  intros Hp H. unfold trim_start_matches. destruct p as [|c p]; [congruence|].
  replace (length ((c :: p) ++ (c :: p) ++ s)) with (S (S (length p + length p + length s)))
    by (rewrite !app_length; cbn [length]; lia).
  rewrite !trim_start_fuel_step by discriminate. apply trim_start_fuel_none. exact H.
Qed.

Lemma trim_end_matches_twice p s :
  p <> [] -> ends_with p s = false -> trim_end_matches p (s ++ p ++ p) = s.
Proof.
  intros Hp H. unfold trim_end_matches. rewrite !rev_app_distr, <- app_assoc.
  rewrite trim_start_matches_twice; [apply rev_involutive | | exact H].
  intros E. apply Hp. apply (f_equal (@rev _)) in E. rewrite rev_involutive in E. exact E.
Qed.

Lemma split_fuel_nonempty f p s : split_fuel f p s <> [].
Proof. destruct f; cbn [split_fuel]; [discriminate|]. destruct (split_once p s) as [[a b]|]; discriminate. Qed.

Lemma join_split_fuel f p s : join p (split_fuel f p s) = s.
Proof.
  revert s; induction f as [|f IH]; intros s; cbn [split_fuel]; [reflexivity|].
  destruct (split_once p s) as [[a b]|] eqn:E; [|reflexivity].
  apply split_once_sound in E. subst s.
  destruct (split_fuel f p b) as [|x l] eqn:El; [exfalso; exact (split_fuel_nonempty _ _ _ El)|].
  rewrite join_cons2, <- El, IH. reflexivity.
Qed.

Lemma join_split p s : join p (split p s) = s.
Proof. apply join_split_fuel. Qed.
