(* Strings as lists of Unicode scalar values, with the Rust `str` operations the models need.
   Every function is total and computable; Rust semantics are documented at each definition. *)
From Coq Require Export List NArith ZArith Bool Lia.
Export ListNotations.
Open Scope N_scope.

Definition char := N.
Definition str := list char.

Arguments N.add : simpl never.
Arguments N.sub : simpl never.
Arguments N.eqb : simpl never.
Arguments N.ltb : simpl never.
Arguments N.leb : simpl never.

(* --- equality ---------------------------------------------------------------------------- *)
Fixpoint str_eqb (a b : str) : bool :=
  match a, b with
  | [], [] => true
  | x :: a', y :: b' => (x =? y) && str_eqb a' b'
  | _, _ => false
  end.

Lemma str_eqb_spec a b : reflect (a = b) (str_eqb a b).
Proof.
  revert b; induction a as [|x a IH]; intros [|y b]; cbn [str_eqb]; try (constructor; congruence).
  destruct (N.eqb_spec x y) as [->|Hne]; cbn [andb].
  - destruct (IH b) as [->|Hne]; constructor; congruence.
  - constructor; congruence.
Qed.

Lemma str_eqb_eq a b : str_eqb a b = true <-> a = b.
Proof. destruct (str_eqb_spec a b); split; congruence. Qed.

Lemma str_eqb_refl a : str_eqb a a = true.
Proof. apply str_eqb_eq; reflexivity. Qed.

Definition str_eq_dec (a b : str) : {a = b} + {a <> b}.
Proof. destruct (str_eqb_spec a b); [left|right]; assumption. Defined.

(* --- ASCII case mapping (char::to_ascii_lowercase / to_ascii_uppercase) ----------------- *)
Definition is_ascii_upper (c : char) : bool := (65 <=? c) && (c <=? 90).
Definition is_ascii_lower (c : char) : bool := (97 <=? c) && (c <=? 122).
Definition is_ascii_digit (c : char) : bool := (48 <=? c) && (c <=? 57).
Definition ascii_lower (c : char) : char := if is_ascii_upper c then c + 32 else c.
Definition ascii_upper (c : char) : char := if is_ascii_lower c then c - 32 else c.
Definition to_ascii_lowercase (s : str) : str := map ascii_lower s.
Definition to_ascii_uppercase (s : str) : str := map ascii_upper s.

(* str::replace(char, &str) for a single-character pattern *)
Definition replace_char (from : char) (to : str) (s : str) : str :=
  flat_map (fun c => if c =? from then to else [c]) s.

(* UTF-8 encoded length of one scalar value *)
Definition utf8_len (c : char) : N :=
  if c <? 128 then 1 else if c <? 2048 then 2 else if c <? 65536 then 3 else 4.
Definition utf8_size (s : str) : N := fold_right (fun c n => utf8_len c + n) 0 s.

(* --- prefixes, suffixes ----------------------------------------------------------------- *)
Fixpoint starts_with (p s : str) : bool :=
  match p, s with
  | [], _ => true
  | x :: p', y :: s' => (x =? y) && starts_with p' s'
  | _ :: _, [] => false
  end.

Definition ends_with (p s : str) : bool := starts_with (rev p) (rev s).

Lemma starts_with_spec p s : starts_with p s = true <-> exists r, s = p ++ r.
Proof.
  revert s; induction p as [|x p IH]; intros s; cbn [starts_with].
  - split; [exists s; reflexivity | reflexivity].
  - destruct s as [|y s].
    + split; [discriminate | intros [r Hr]; discriminate].
    + rewrite andb_true_iff, N.eqb_eq, IH. split.
      * intros [-> [r ->]]. exists r; reflexivity.
      * intros [r Hr]. cbn in Hr. injection Hr as -> ->. split; [reflexivity | exists r; reflexivity].
Qed.

Lemma ends_with_spec p s : ends_with p s = true <-> exists r, s = r ++ p.
Proof.
  unfold ends_with. rewrite starts_with_spec. split.
  - intros [r Hr]. exists (rev r). apply (f_equal (@rev _)) in Hr.
    rewrite rev_involutive, rev_app_distr, rev_involutive in Hr. exact Hr.
  - intros [r ->]. exists (rev r). rewrite rev_app_distr. reflexivity.
Qed.

(* strip one occurrence of prefix p *)
Fixpoint strip_prefix (p s : str) : option str :=
  match p, s with
  | [], _ => Some s
  | x :: p', y :: s' => if x =? y then strip_prefix p' s' else None
  | _ :: _, [] => None
  end.

Lemma strip_prefix_spec p s r : strip_prefix p s = Some r <-> s = p ++ r.
Proof.
  revert s; induction p as [|x p IH]; intros s; cbn [strip_prefix].
  - cbn. split; congruence.
  - destruct s as [|y s]; [split; [discriminate | cbn; discriminate]|].
    destruct (N.eqb_spec x y) as [->|Hne].
    + rewrite IH. cbn. split; [intros ->; reflexivity | intros H; injection H as ->; reflexivity].
    + split; [discriminate | cbn; intros H; injection H as H _; congruence].
Qed.

Definition strip_suffix (p s : str) : option str :=
  match strip_prefix (rev p) (rev s) with Some r => Some (rev r) | None => None end.

(* str::trim_start_matches(pat: &str): strips the prefix repeatedly (fuel = length s). An empty
   pattern is never used by the modelled code; it returns s. *)
Fixpoint trim_start_matches_fuel (fuel : nat) (p s : str) : str :=
  match fuel with
  | O => s
  | S f => match p with
           | [] => s
           | _ => match strip_prefix p s with
                  | Some r => trim_start_matches_fuel f p r
                  | None => s
                  end
           end
  end.
Definition trim_start_matches (p s : str) : str := trim_start_matches_fuel (length s) p s.
Definition trim_end_matches (p s : str) : str := rev (trim_start_matches (rev p) (rev s)).

(* trim_start_matches / trim_end_matches / trim_matches for a set of characters *)
Fixpoint trim_start_chars (f : char -> bool) (s : str) : str :=
  match s with
  | c :: r => if f c then trim_start_chars f r else s
  | [] => []
  end.
Definition trim_end_chars (f : char -> bool) (s : str) : str := rev (trim_start_chars f (rev s)).
Definition trim_chars (f : char -> bool) (s : str) : str := trim_end_chars f (trim_start_chars f s).

(* --- searching and splitting ------------------------------------------------------------- *)
(* str::split_once(pat): first occurrence, leftmost *)
Fixpoint split_once (p s : str) : option (str * str) :=
  match strip_prefix p s with
  | Some r => Some ([], r)
  | None => match s with
            | [] => None
            | c :: s' => match split_once p s' with
                         | Some (a, b) => Some (c :: a, b)
                         | None => None
                         end
            end
  end.

Definition contains (p s : str) : bool := match split_once p s with Some _ => true | None => false end.

(* str::split(pat) for a non-empty pattern: non-overlapping, left to right; always at least one
   piece. Fuel = length of s (each split consumes at least one character). *)
Fixpoint split_fuel (fuel : nat) (p s : str) : list str :=
  match fuel with
  | O => [s]
  | S f => match split_once p s with
           | Some (a, b) => a :: split_fuel f p b
           | None => [s]
           end
  end.
Definition split (p s : str) : list str := split_fuel (S (length s)) p s.

(* slice::join / str::join *)
Fixpoint join (sep : str) (l : list str) : str :=
  match l with
  | [] => []
  | [x] => x
  | x :: r => x ++ sep ++ join sep r
  end.

(* str::replace(from, to) for a non-empty pattern *)
Definition replace (from to s : str) : str := join to (split from s).

(* --- ordering: Rust compares &str by bytes; UTF-8 preserves code-point order ------------ *)
Fixpoint str_compare (a b : str) : comparison :=
  match a, b with
  | [], [] => Eq
  | [], _ :: _ => Lt
  | _ :: _, [] => Gt
  | x :: a', y :: b' => match x ?= y with Eq => str_compare a' b' | c => c end
  end.
Definition str_ltb (a b : str) : bool := match str_compare a b with Lt => true | _ => false end.
Definition str_leb (a b : str) : bool := match str_compare a b with Gt => false | _ => true end.

Lemma str_compare_eq a b : str_compare a b = Eq <-> a = b.
Proof.
  revert b; induction a as [|x a IH]; intros [|y b]; cbn; try (split; congruence).
  destruct (N.compare_spec x y) as [->|H|H].
  - rewrite IH. split; congruence.
  - split; [discriminate | intros E; injection E as -> _; lia].
  - split; [discriminate | intros E; injection E as -> _; lia].
Qed.

Lemma str_compare_antisym a b : str_compare b a = CompOpp (str_compare a b).
Proof.
  revert b; induction a as [|x a IH]; intros [|y b]; cbn; try reflexivity.
  rewrite (N.compare_antisym x y). destruct (x ?= y); cbn; auto.
Qed.

Lemma str_compare_trans a b c : str_compare a b = Lt -> str_compare b c = Lt -> str_compare a c = Lt.
Proof.
  revert b c; induction a as [|x a IH]; intros [|y b] [|z c]; cbn; try congruence.
  destruct (N.compare_spec x y) as [->|H1|H1]; try discriminate.
  - destruct (N.compare_spec y z) as [->|H2|H2]; try discriminate; auto. apply IH.
  - destruct (N.compare_spec y z) as [->|H2|H2]; try discriminate; intros _ _.
    + destruct (N.compare_spec x z); try lia; reflexivity.
    + destruct (N.compare_spec x z); try lia; reflexivity.
Qed.

(* ASCII literals: `lit "abc"` *)
From Coq Require Strings.String Strings.Ascii.
Fixpoint lit (s : String.string) : str :=
  match s with
  | String.EmptyString => []
  | String.String a r => Ascii.N_of_ascii a :: lit r
  end.
(* the string-literal notation without importing String's list-shadowing names *)
Export String.StringSyntax.
Delimit Scope string_scope with string.
Arguments lit s%string.

(* --- lines, whitespace ------------------------------------------------------------------- *)
Definition nl : char := 10.
Definition cr : char := 13.

(* pieces between occurrences of a character; always at least one piece *)
Fixpoint split_char (d : char) (s : str) : list str :=
  match s with
  | [] => [[]]
  | c :: r =>
      if c =? d then [] :: split_char d r
      else match split_char d r with
           | p :: ps => (c :: p) :: ps
           | [] => [[c]]
           end
  end.

Definition strip_cr (s : str) : str :=
  match rev s with c :: r => if c =? cr then rev r else s | [] => s end.

(* str::lines: split at '\n', a final empty piece is dropped, one trailing '\r' per line too *)
Definition lines (s : str) : list str :=
  let ps := split_char nl s in
  let ps := match rev ps with [] :: r => rev r | _ => ps end in
  map strip_cr ps.

(* char::is_whitespace: the Unicode White_Space property (stable set) *)
Definition is_whitespace (c : char) : bool :=
  ((9 <=? c) && (c <=? 13)) || (c =? 32) || (c =? 133) || (c =? 160) || (c =? 5760) ||
  ((8192 <=? c) && (c <=? 8202)) || (c =? 8232) || (c =? 8233) || (c =? 8239) || (c =? 8287) || (c =? 12288).

Fixpoint take_while (f : char -> bool) (s : str) : str :=
  match s with c :: r => if f c then c :: take_while f r else [] | [] => [] end.

(* str::split_whitespace().next() *)
Definition first_token (s : str) : option str :=
  match take_while (fun c => negb (is_whitespace c)) (trim_start_chars is_whitespace s) with
  | [] => None
  | t => Some t
  end.

Definition last_piece (l : list str) : str := last l [].

(* --- generic facts about prefixes, suffixes and trimming (used by Proofs/Path_proofs.v) ---- *)
Lemma starts_with_false_strip p s : starts_with p s = false -> strip_prefix p s = None.
Proof.
  revert s; induction p as [|x p IH]; intros s; cbn [starts_with strip_prefix]; [discriminate|].
  destruct s as [|y s]; [reflexivity|].
  destruct (x =? y); cbn [andb]; [apply IH | reflexivity].
Qed.

Lemma strip_prefix_app p s : strip_prefix p (p ++ s) = Some s.
Proof. apply strip_prefix_spec; reflexivity. Qed.

Lemma trim_start_fuel_none f p s : starts_with p s = false -> trim_start_matches_fuel f p s = s.
Proof.
  intros H. destruct f; cbn [trim_start_matches_fuel]; [reflexivity|].
  destruct p; [reflexivity|]. rewrite (starts_with_false_strip _ _ H). reflexivity.
Qed.

Lemma trim_start_fuel_step f p s :
  p <> [] -> trim_start_matches_fuel (S f) p (p ++ s) = trim_start_matches_fuel f p s.
Proof.
  intros H. cbn [trim_start_matches_fuel]. destruct p as [|c p]; [congruence|].
  rewrite strip_prefix_app. reflexivity.
Qed.

Lemma trim_start_matches_none p s : starts_with p s = false -> trim_start_matches p s = s.
Proof. intros H. apply trim_start_fuel_none; exact H. Qed.

Lemma trim_start_matches_once p s :
  p <> [] -> starts_with p s = false -> trim_start_matches p (p ++ s) = s.
Proof.
  intros Hp H. unfold trim_start_matches. destruct p as [|c p]; [congruence|].
  change (length ((c :: p) ++ s)) with (S (length (p ++ s))).
  rewrite trim_start_fuel_step by discriminate. apply trim_start_fuel_none; exact H.
Qed.

Lemma trim_end_matches_none p s : ends_with p s = false -> trim_end_matches p s = s.
Proof.
  intros H. unfold trim_end_matches. rewrite trim_start_matches_none by exact H.
  apply rev_involutive.
Qed.

Lemma trim_end_matches_once p s :
  p <> [] -> ends_with p s = false -> trim_end_matches p (s ++ p) = s.
Proof.
  intros Hp H. unfold trim_end_matches. rewrite rev_app_distr.
  rewrite trim_start_matches_once; [apply rev_involutive | | exact H].
  intros E. apply Hp. apply (f_equal (@rev _)) in E. rewrite rev_involutive in E. exact E.
Qed.

Lemma starts_with_app_notin p a c b : ~ In c p -> starts_with p (a ++ c :: b) = starts_with p a.
Proof.
  revert a; induction p as [|x p IH]; intros a Hc; [reflexivity|].
  destruct a as [|y a]; cbn [app starts_with].
  - destruct (N.eqb_spec x c) as [->|Hne]; [exfalso; apply Hc; left; reflexivity | reflexivity].
  - rewrite IH; [reflexivity | intros Hin; apply Hc; right; exact Hin].
Qed.

Lemma ends_with_app_notin p a c b : ~ In c p -> ends_with p (a ++ c :: b) = ends_with p b.
Proof.
  intros Hc. unfold ends_with. rewrite rev_app_distr. cbn [rev]. rewrite <- app_assoc.
  cbn [app]. apply starts_with_app_notin. rewrite <- in_rev. exact Hc.
Qed.

Lemma strip_suffix_app p s : strip_suffix p (s ++ p) = Some s.
Proof.
  unfold strip_suffix. rewrite rev_app_distr, strip_prefix_app, rev_involutive. reflexivity.
Qed.
