(* Results of running Rust code: a value, an `Err`, or a panic. Panics are outcomes, never
   excluded by fiat. *)
From TsRs Require Import Base.Str.
Inductive outcome (A : Type) : Type :=
| Ok (a : A)
| Err (msg : str)
| Panic (msg : str).
Arguments Ok {A} a.
Arguments Err {A} msg.
Arguments Panic {A} msg.

Definition bind {A B} (x : outcome A) (f : A -> outcome B) : outcome B :=
  match x with Ok a => f a | Err m => Err m | Panic m => Panic m end.
Definition omap {A B} (f : A -> B) (x : outcome A) : outcome B :=
  match x with Ok a => Ok (f a) | Err m => Err m | Panic m => Panic m end.
Definition is_ok {A} (x : outcome A) : bool := match x with Ok _ => true | _ => false end.
Definition is_panic {A} (x : outcome A) : bool := match x with Panic _ => true | _ => false end.
