(* Pinned statements of the C09 property theorems: compiled on every run, so that a theorem
   cannot be weakened silently. *)
From TsRs Require Import Base.Str Base.Outcome Model.Case Spec.SerdeCase Props.C09.
Check (C09_rename_agrees :
  forall (is_upper : char -> bool) (p : position) (r : rule) (id n : str),
    serde_rename is_upper p r id = Ok n -> ts_rename is_upper p r id = n).
Check (C09_serde_undefined_only_on_camel :
  forall (is_upper : char -> bool) (p : position) (r : rule) (id m : str),
    serde_rename is_upper p r id = Panic m ->
    r = Camel /\ match (match p with Field => pascal_loop true id | Variant => id end) with
                 | [] => True | c :: _ => utf8_len c <> 1 end).
Check (C09_serde_never_err :
  forall (is_upper : char -> bool) p r id m, serde_rename is_upper p r id <> Err m).
