From TsRs Require Import Base.Str Base.Outcome Model.Path Props.C08.
Check (C08_placeholder : forall a : comp, comp_eqb a a = true).
